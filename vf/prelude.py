"""Documents imported *before* the document under test (C11, C12).

What import_from_yaml does with a text is a function of that text alone: whatever was imported
earlier in the same process (documents carrying %YAML / %TAG directives, documents that failed
half-way, anchors) must not change it.  Every case carries a short list of indexes into PRELUDES;
the oracle imports them first, ignoring their outcome."""

_MIN = 'statechart:\n  name: p\n  root state:\n    name: r\n'

PRELUDES = [
    '%YAML 1.2\n---\n' + _MIN,
    '%YAML 1.1\n---\n' + _MIN,
    '%YAML 1.1\n---\n' + _MIN + '    colour: red\n',            # rejected after the directive
    '%YAML 1.1\n---\nstatechart: [unclosed\n',                   # not YAML, after the directive
    '---\nstatechart:\n  name: q\n  root state:\n    name: yes\n    states:\n    - name: no\n',
    '%TAG !e! tag:example.com,2000:\n---\n' + _MIN,
    'statechart:\n  name: &n x\n  root state:\n    name: *n\n',
    _MIN + '...\n',
]


def strategy():
    from hypothesis import strategies as st
    return st.lists(st.integers(0, len(PRELUDES) - 1), min_size=1, max_size=2)


def run_prelude(indexes):
    from sismic.io import import_from_yaml
    for i in indexes if indexes else [0]:
        try:
            import_from_yaml(PRELUDES[i % len(PRELUDES)])
        except Exception:
            pass
