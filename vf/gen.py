"""Hypothesis strategies: well-formed charts (by construction), input histories, text."""
from hypothesis import strategies as st

from . import spec as S

PRIORITIES = [0, 0, 0, 0, 0, 1, -1, 2, -2, 'high', 'low', 10, -10, 100, 3]
DELAYS = [0, 0.25, 0.5, 1, 2, 5]

DEFAULT_MIX = (('sibling', 30), ('other', 15), ('orthin', 15), ('anc', 10), ('desc', 5),
               ('hist', 10), ('internal', 15))


def _weighted(pairs):
    out = []
    for k, w in pairs:
        out.extend([k] * w)
    return out


@st.composite
def charts(draw, max_states=12, max_depth=4, p_hist=0.4, allow_final=True, root_final=0.3,
           n_events=3, min_tr=3, max_tr=14, p_orth_root=0.3, mix=DEFAULT_MIX, p_eventless=0.2,
           p_sends=0.0, p_notify=0.0, send_delays=False, force_history=False,
           priorities=PRIORITIES, dup_tr=0.0, name_fmt='s%02d', allow_orthogonal=True, orth_weight=None, p_hist2=0.25,
           p_aguard=0.0, p_wild=0.25):
    """A well-formed chart spec (DESIGN.md section 2), built by construction."""
    nodes = []
    budget = [max_states - 1]

    def add(kind, parent, depth):
        idx = len(nodes)
        nodes.append({'kind': kind, 'parent': parent, 'depth': depth, 'children': []})
        if parent is not None:
            nodes[parent]['children'].append(idx)
            budget[0] -= 1
        return idx

    def child_kind(parent_kind, depth):
        can_nest = depth < max_depth and budget[0] >= 2
        if parent_kind == 'compound':
            opts = ['basic'] * 5
            if can_nest:
                opts += ['compound'] * 2 + (['orthogonal'] * (orth_weight or 2) if allow_orthogonal else [])
            if allow_final:
                opts += ['final']
        else:
            opts = ['basic'] * 3
            if can_nest:
                opts += ['compound'] * 4 + (['orthogonal'] * (orth_weight or 1) if allow_orthogonal else [])
        return draw(st.sampled_from(opts))

    def grow(idx):
        n = nodes[idx]
        if n['kind'] == 'compound':
            lo, hi = 1, 3
        elif n['kind'] == 'orthogonal':
            lo, hi = 2, 3
        else:
            return
        k = draw(st.integers(lo, hi))
        k = max(lo, min(k, max(budget[0], 0)))
        kids = []
        for _ in range(k):
            kids.append(add(child_kind(n['kind'], n['depth'] + 1), idx, n['depth'] + 1))
        if n['kind'] == 'compound' and draw(st.floats(0, 1)) < (1.0 if (force_history and not
                                                                         hist_made[0]) else p_hist):
            add(draw(st.sampled_from(['shallow', 'deep'])), idx, n['depth'] + 1)
            hist_made[0] = True
            if draw(st.floats(0, 1)) < p_hist2:
                # a compound state may own several history children (shallow and/or deep)
                add(draw(st.sampled_from(['shallow', 'deep'])), idx, n['depth'] + 1)
        for c in kids:
            grow(c)

    hist_made = [False]
    root_kind = 'orthogonal' if draw(st.floats(0, 1)) < p_orth_root else 'compound'
    add(root_kind, None, 1)
    grow(0)
    if root_kind == 'compound' and allow_final and draw(st.floats(0, 1)) < root_final:
        if not any(nodes[c]['kind'] == 'final' for c in nodes[0]['children']):
            add('final', 0, 2)

    n = len(nodes)
    ids = draw(st.lists(st.integers(0, 99), min_size=n, max_size=n, unique=True))
    names = [name_fmt % i for i in ids]
    if name_fmt == 's%02d' and draw(st.floats(0, 1)) < p_wild:
        # names whose string order differs from their numeric order and from a case-insensitive
        # order: 'S7' < 'Z100' < 'a10' < 'a9' < 's3'
        ids = draw(st.lists(st.integers(0, 120), min_size=n, max_size=n, unique=True))
        names = [draw(st.sampled_from(['s', 's', 'S', 'a', 'Z'])) + '%d' % i for i in ids]
        # ... and some one-character names (which are parts of the longer ones)
        chars = sorted(set(''.join(names)))
        singles = draw(st.lists(st.sampled_from(chars), max_size=min(n - 1, 4), unique=True))
        for k, ch in enumerate(singles):
            if ch not in names:
                names[(k * 7 + len(singles)) % n] = ch
        # ... and sibling regions whose names are equal up to case ('s5' / 'S5')
        for nd in nodes:
            kids = nd['children']
            if nd['kind'] == 'orthogonal' and len(kids) >= 2 and draw(st.booleans()):
                twin = names[kids[0]].swapcase()
                if twin != names[kids[0]] and twin not in names:
                    names[kids[1]] = twin
        if len(set(names)) != n:
            names = ['s%d' % i for i in ids]
    states = []
    for i, nd in enumerate(nodes):
        s = {'name': names[i], 'sid': i, 'kind': nd['kind'],
             'parent': None if nd['parent'] is None else names[nd['parent']],
             'initial': None, 'memory': None}
        kids = nd['children']
        if nd['kind'] == 'compound':
            plain = [c for c in kids if nodes[c]['kind'] not in S.HISTORY]
            hist = [c for c in kids if nodes[c]['kind'] in S.HISTORY]
            if hist and draw(st.floats(0, 1)) < 0.1:
                s['initial'] = names[draw(st.sampled_from(hist))]
            else:
                s['initial'] = names[draw(st.sampled_from(plain))]
        if nd['kind'] in S.HISTORY:
            sibs = [c for c in nodes[nd['parent']]['children']
                    if nodes[c]['kind'] not in S.HISTORY]
            s['memory'] = names[draw(st.sampled_from(sibs))]
        states.append(s)
    # parents before children, siblings in creation order
    order = []

    def walk(i):
        order.append(i)
        for c in nodes[i]['children']:
            walk(c)
    walk(0)
    states = [states[i] for i in order]

    spec = {'name': 'sc', 'description': None, 'preamble': None, 'states': states,
            'transitions': []}
    t = S.Tree(spec)
    owners = [s['name'] for s in states if s['kind'] in S.TRANSITION_OWNERS]
    allnames = [s['name'] for s in states]
    events = ['e%d' % i for i in range(n_events)]
    cats = _weighted(mix)
    n_tr = draw(st.integers(min_tr, max_tr))
    trs = []
    for tid in range(n_tr):
        if trs and dup_tr and draw(st.floats(0, 1)) < dup_tr:
            base = dict(draw(st.sampled_from(trs)))
            base['id'] = tid
            if draw(st.booleans()):
                base['priority'] = draw(st.sampled_from(priorities))
            trs.append(base)
            continue
        src = draw(st.sampled_from(owners))
        allowed = []
        for x in allnames:
            if t.crosses_regions(src, x):
                continue
            if t.kind[x] in S.HISTORY and (src == t.parent[x] or src in t.descendants(t.parent[x])):
                continue
            allowed.append(x)
        cat = draw(st.sampled_from(cats))
        anc = t.ancestors(src)
        if cat == 'internal':
            cand = [None]
        elif cat == 'sibling':
            cand = [x for x in allowed if t.parent[x] == t.parent[src] and x != src]
        elif cat == 'anc':
            cand = [x for x in allowed if x in anc or x == src]
        elif cat == 'desc':
            cand = [x for x in allowed if x in t.descendants(src)]
        elif cat == 'hist':
            cand = [x for x in allowed if t.kind[x] in S.HISTORY]
        elif cat == 'orthin':
            cand = [x for x in allowed if x != src and x not in anc and any(
                t.kind[a] == 'orthogonal' and a not in anc and a != src for a in t.ancestors(x))]
        else:
            cand = [x for x in allowed if x != src and x not in anc
                    and x not in t.descendants(src) and t.parent[x] != t.parent[src]]
        if not cand:
            cand = allowed + [None]
        tgt = draw(st.sampled_from(cand))
        ev = None if draw(st.floats(0, 1)) < p_eventless else draw(st.sampled_from(events))
        trs.append({'id': tid, 'source': src, 'target': tgt, 'event': ev,
                    'guard': None, 'action': None,
                    'priority': draw(st.sampled_from(priorities))})
    spec['transitions'] = trs
    if p_aguard:
        # some guards also depend on the live configuration: gv[tid] and active(<state>)
        for tr in trs:
            if draw(st.floats(0, 1)) < p_aguard:
                tr['aguard'] = draw(st.sampled_from(allnames))

    if p_sends or p_notify:
        def sends():
            out = []
            if p_sends and draw(st.floats(0, 1)) < p_sends:
                for _ in range(draw(st.integers(1, 2))):
                    d = None
                    if send_delays and draw(st.booleans()):
                        d = draw(st.sampled_from(DELAYS))
                    out.append({'kind': 'send', 'name': draw(st.sampled_from(events)), 'delay': d})
            if p_notify and draw(st.floats(0, 1)) < p_notify:
                out.append({'kind': 'notify', 'name': draw(st.sampled_from(['n0', 'n1'])),
                            'delay': None})
            return out
        for s in states:
            s['sends_entry'] = sends()
            s['sends_exit'] = sends()
        for tr in trs:
            tr['sends'] = sends()
    bad = S.well_formed(spec)
    if bad:
        raise RuntimeError('generator produced an ill-formed chart: %r' % (bad,))
    return spec


@st.composite
def gvs(draw, n, p_all=0.2, p_none=0.1):
    r = draw(st.floats(0, 1))
    if r < p_all:
        return [True] * n
    if r < p_all + p_none:
        return [False] * n
    return [draw(st.floats(0, 1)) < 0.65 for _ in range(n)]


@st.composite
def histories(draw, spec, min_ops=6, max_ops=20, n_events=3, delays=False, advances=False,
              p_all=0.2, p_none=0.1, extra_events=0, as_event=False, big_jump=False):
    """operation list: ['q', name, delay|None, mode] | ['adv', dt] | ['step', [bool..]].

    Starts with the initial step.  External events get uid 'x<i>' by position."""
    n = len(spec['transitions'])
    events = ['e%d' % i for i in range(n_events + extra_events)]
    ops = [['step', [True] * n]]
    kinds = ['q'] * 4 + ['step'] * 5
    if advances:
        kinds += ['adv'] * 2
    k = draw(st.integers(min_ops, max_ops))
    uid = 0
    for _ in range(k):
        kind = draw(st.sampled_from(kinds))
        if kind == 'q':
            d = None
            if delays and draw(st.floats(0, 1)) < 0.4:
                d = draw(st.sampled_from(DELAYS))
            mode = draw(st.sampled_from(['str', 'event', 'multi', 'multi_dec'])) if as_event else 'str'
            ops.append(['q', draw(st.sampled_from(events)), d, mode, 'x%d' % uid])
            uid += 1
        elif kind == 'adv':
            if big_jump and draw(st.integers(0, 9)) == 0:
                ops.append(['adv', 2.0 ** 30])     # epoch-like interpreter times (still exact)
            else:
                ops.append(['adv', draw(st.sampled_from(DELAYS[1:]))])
        else:
            ops.append(['step', draw(gvs(n, p_all, p_none))])
    ops.append(['step', draw(gvs(n, p_all, p_none))])
    return ops


@st.composite
def faults(draw, ops, p=0.3, kinds=('inv', 'inv', 'ipre', 'ipost', 'iboom', 'iboom')):
    """fault points: [[op index of a step (never the first one), kind]], at most two.

    'inv'   every state invariant is false at the end of that macro step;
    'ipre' / 'ipost'  the pre / postcondition of every internal transition is false in that step;
    'iboom' the action of every internal transition raises at its end in that step.
    All of them leave a legal, stable configuration behind (DESIGN.md 4, core)."""
    idx = [i for i, o in enumerate(ops) if o[0] == 'step'][1:]
    if not idx or draw(st.floats(0, 1)) >= p:
        return []
    n = draw(st.integers(1, min(2, len(idx))))
    chosen = draw(st.lists(st.sampled_from(idx), min_size=n, max_size=n, unique=True))
    return [[i, draw(st.sampled_from(kinds))] for i in sorted(chosen)]


@st.composite
def with_contracts(draw, spec, p=0.5, max_each=2):
    """attach abstract contract annotations c_pre/c_post/c_inv (lists of unique condition ids)"""
    cid = [0]

    def conds():
        out = []
        for _ in range(draw(st.integers(0, max_each))):
            cid[0] += 1
            out.append(cid[0])
        return out
    for o in spec['states'] + spec['transitions']:
        if draw(st.floats(0, 1)) < p:
            o['c_pre'], o['c_post'], o['c_inv'] = conds(), conds(), conds()
        else:
            o['c_pre'], o['c_post'], o['c_inv'] = [], [], []
    return spec


@st.composite
def with_time_guards(draw, spec, p=0.3, ds=(0, 0.25, 1, 2, 5)):
    """mark some transitions with a time guard ('after'|'idle', d) instead of a table guard"""
    for t in spec['transitions']:
        if draw(st.floats(0, 1)) < p:
            t['tguard'] = [draw(st.sampled_from(['after', 'idle'])), draw(st.sampled_from(ds))]
    return spec
