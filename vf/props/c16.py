"""C16 Structural editing keeps a statechart sound; failed edits change nothing."""
import copy

from hypothesis import strategies as st

from .. import gen
from ..spec import prio_value, to_statechart, HISTORY, COMPOSITE, TRANSITION_OWNERS

PROP = 'C16'
LEVEL = 'exploration'
BUDGET = {'quick': 9600, 'thorough': 128000}
RULE = ('cases = generated well-formed chart + a sequence of <=25 editing operations (add_state, '
        'remove_state, rename_state, move_state, add_transition, remove_transition, '
        'rotate_transition, assignment of initial/memory) whose arguments are resolved against the '
        'current model state, ~70% valid and ~30% invalid (unknown names, existing names, '
        'descendants as new parent, non-composite parents, history/final transition sources, '
        'unregistered transitions, valid source with invalid target). A dict-based model applies '
        'the documented effect of every call that returned; after every operation the public '
        'observation (states, root, parent_for, children_for as sets, kinds, initial/memory, '
        'transition multiset) must equal the model, the stated invariants must hold and '
        'validate() must pass; a call that raised StatechartError/ValueError must leave the '
        'observation unchanged, any other exception type is a violation. Non-trivial = sequence '
        'with >=3 successful edits of >=2 kinds and >=1 rejected edit; distinct = sha1(case).')
ASSUMPTIONS = ['move_state is only exercised with composite new parents (DESIGN.md N2)',
               'rotate/remove_transition receive registered instances or fresh unregistered ones '
               '(DESIGN.md N3)']


def strategy(tier):
    @st.composite
    def cases(draw):
        spec = draw(gen.charts(max_states=9, max_tr=8, min_tr=2, p_hist=0.5))
        ops = []
        kinds = ['add_state', 'remove_state', 'rename_state', 'move_state', 'add_transition',
                 'remove_transition', 'rotate_transition', 'rotate_transition', 'set_ref']
        for _ in range(draw(st.integers(3, 25))):
            k = draw(st.sampled_from(kinds))
            valid = draw(st.floats(0, 1)) < 0.7
            ops.append([k, valid] + [draw(st.integers(0, 10**6)) for _ in range(4)])
        return {'spec': spec, 'ops': ops}
    return cases()


class Model:
    def __init__(self, spec):
        self.states = {}
        for s in spec['states']:
            self.states[s['name']] = {'kind': s['kind'], 'parent': s.get('parent'),
                                      'initial': s.get('initial'), 'memory': s.get('memory')}
        self.trs = []   # list of dicts (multiset)
        for t in spec['transitions']:
            self.trs.append({'source': t['source'], 'target': t.get('target'),
                             'event': t.get('event'), 'action': 'a%d' % t['id'],
                             'priority': prio_value(t.get('priority'))})
        self.fresh = 0

    def children(self, n):
        return sorted(k for k, v in self.states.items() if v['parent'] == n)

    def descendants(self, n):
        out, todo = set(), [n]
        while todo:
            x = todo.pop()
            for c in self.children(x):
                out.add(c)
                todo.append(c)
        return out

    def root(self):
        r = [k for k, v in self.states.items() if v['parent'] is None]
        return r[0] if r else None

    def observe(self):
        return {'states': {n: dict(v, children=self.children(n)) for n, v in self.states.items()},
                'root': self.root(),
                'transitions': sorted(repr([t['source'], t['target'], t['event'], t['action'],
                                            t['priority']]) for t in self.trs)}


def observe(sc):
    from sismic import model
    kinds = [(model.ShallowHistoryState, 'shallow'), (model.DeepHistoryState, 'deep'),
             (model.FinalState, 'final'), (model.OrthogonalState, 'orthogonal'),
             (model.CompoundState, 'compound'), (model.BasicState, 'basic')]
    states = {}
    for n in sc.states:
        o = sc.state_for(n)
        k = [name for klass, name in kinds if type(o) is klass][0]
        states[n] = {'kind': k, 'parent': sc.parent_for(n), 'initial': getattr(o, 'initial', None),
                     'memory': getattr(o, 'memory', None), 'children': sorted(sc.children_for(n))}
        if o.name != n:
            states[n]['name_attr'] = o.name
    return {'states': states, 'root': sc.root,
            'transitions': sorted(repr([t.source, t.target, t.event, t.action, t.priority])
                                  for t in sc.transitions)}


def invariants(sc):
    from sismic import model
    bad = []
    names = set(sc.states)
    roots = [n for n in names if sc.parent_for(n) is None]
    if names and len(roots) != 1:
        bad.append('roots: %r' % sorted(roots))
    for n in names:
        p = sc.parent_for(n)
        if p is not None and (p not in names or n not in sc.children_for(p)):
            bad.append('parent of %r' % n)
        ch = sc.children_for(n)
        if len(set(ch)) != len(ch):
            bad.append('duplicated child of %r' % n)
        for c in ch:
            if c not in names or sc.parent_for(c) != n:
                bad.append('child %r of %r' % (c, n))
        o = sc.state_for(n)
        if getattr(o, 'initial', None) is not None and o.initial not in names:
            bad.append('dangling initial of %r' % n)
        if getattr(o, 'memory', None) is not None and o.memory not in names:
            bad.append('dangling memory of %r' % n)
    if roots and len(roots) == 1:
        seen, todo = set(), [roots[0]]
        while todo:
            x = todo.pop()
            if x in seen:
                bad.append('cycle at %r' % x)
                break
            seen.add(x)
            todo.extend(sc.children_for(x))
        if seen != names:
            bad.append('unreachable states')
    for t in sc.transitions:
        if t.source not in names or not isinstance(sc.state_for(t.source),
                                                   model.TransitionStateMixin):
            bad.append('transition source %r' % t.source)
        if t.target is not None and t.target not in names:
            bad.append('transition target %r' % t.target)
    try:
        sc.validate()
    except Exception as e:
        bad.append('validate(): %s' % e)
    # derived queries agree with the parent/children relation they are derived from
    def chain(n):
        out, p = [], sc.parent_for(n)
        while p is not None and len(out) <= len(names):
            out.append(p)
            p = sc.parent_for(p)
        return out

    def closure(n):
        out, todo = set(), [n]
        while todo:
            x = todo.pop()
            for c in sc.children_for(x):
                if c not in out:
                    out.add(c)
                    todo.append(c)
        return out
    ordered = sorted(names)
    for n in ordered:
        try:
            anc = list(sc.ancestors_for(n))
            if anc != chain(n):
                bad.append('ancestors_for(%r) = %r but the parent chain is %r' % (n, anc, chain(n)))
            if sc.depth_for(n) != len(chain(n)) + 1:
                bad.append('depth_for(%r) = %r, parent chain has %d' % (n, sc.depth_for(n),
                                                                        len(chain(n))))
            desc = list(sc.descendants_for(n))
            if set(desc) != closure(n) or len(set(desc)) != len(desc):
                bad.append('descendants_for(%r) = %r, children closure is %r'
                           % (n, desc, sorted(closure(n))))
            frm = sorted(repr([t.source, t.target, t.event, t.action])
                         for t in sc.transitions_from(n))
            if frm != sorted(repr([t.source, t.target, t.event, t.action])
                             for t in sc.transitions if t.source == n):
                bad.append('transitions_from(%r)' % n)
            to = sorted(repr([t.source, t.target, t.event, t.action])
                        for t in sc.transitions_to(n))
            if to != sorted(repr([t.source, t.target, t.event, t.action])
                            for t in sc.transitions if t.target == n
                            or (t.target is None and t.source == n)):
                bad.append('transitions_to(%r)' % n)
        except Exception as e:
            bad.append('derived query on %r raised %s: %s' % (n, type(e).__name__, e))
    for i in range(0, max(0, len(ordered) - 1), 2):
        a, b = ordered[i], ordered[-1 - i // 2]
        try:
            got = sc.least_common_ancestor(a, b)
            ca, cb = chain(a), chain(b)
            want = next((x for x in ca if x in cb), None)
            if got != want and not (got is None and want == sc.root):
                bad.append('least_common_ancestor(%r, %r) = %r, parent chains give %r'
                           % (a, b, got, want))
        except Exception as e:
            bad.append('least_common_ancestor raised %s: %s' % (type(e).__name__, e))
    return bad


def pick(lst, n):
    return lst[n % len(lst)] if lst else None


def plan(m, sc, op):
    """resolve an abstract op against the model: returns (description, callable, expected:
    'ok'|'error', model-effect function)"""
    from sismic import model as sm
    k, valid, a, b, c, d = op
    names = sorted(m.states)
    owners = [n for n in names if m.states[n]['kind'] in TRANSITION_OWNERS]
    composites = [n for n in names if m.states[n]['kind'] in COMPOSITE]
    compounds = [n for n in names if m.states[n]['kind'] == 'compound']

    def mk_state(kind, name):
        return {'basic': sm.BasicState, 'compound': sm.CompoundState,
                'orthogonal': sm.OrthogonalState, 'final': sm.FinalState,
                'shallow': sm.ShallowHistoryState, 'deep': sm.DeepHistoryState}[kind](name)

    if k == 'add_state':
        kind = pick(['basic', 'basic', 'compound', 'orthogonal', 'final', 'shallow', 'deep'], a)
        m.fresh += 1
        new = 'n%d' % m.fresh
        gone = sorted(getattr(m, 'removed', set()) - set(names))
        if valid and gone and d % 3 == 0:
            new = pick(gone, d // 3)      # a name that was removed earlier comes back
        if valid:
            parents = compounds if kind in HISTORY else composites
            if not names:
                parent = None
                if kind in HISTORY:
                    kind = 'compound'
            elif parents:
                parent = pick(parents, b)
            else:
                return None
            def eff():
                m.states[new] = {'kind': kind, 'parent': parent, 'initial': None, 'memory': None}
            return ('add_state(%s %r, %r)' % (kind, new, parent),
                    lambda: sc.add_state(mk_state(kind, new), parent), 'ok', eff)
        mode = pick(['existing', 'unknown-parent', 'non-composite', 'hist-under-orth',
                     'second-root'], c)
        if mode == 'existing' and names:
            n2, parent = pick(names, b), pick(composites, d)
            if parent is None:
                return None
            return ('add_state(%s existing %r, %r)' % (kind, n2, parent),
                    lambda: sc.add_state(mk_state(kind, n2), parent), 'error', None)
        if mode == 'unknown-parent':
            return ('add_state(%r, unknown parent)' % new,
                    lambda: sc.add_state(mk_state(kind, new), 'nope'), 'error', None)
        if mode == 'non-composite':
            leaves = [n for n in names if m.states[n]['kind'] not in COMPOSITE]
            if not leaves:
                return None
            parent = pick(leaves, b)
            return ('add_state(%r, non composite %r)' % (new, parent),
                    lambda: sc.add_state(mk_state(kind, new), parent), 'error', None)
        if mode == 'hist-under-orth':
            orth = [n for n in names if m.states[n]['kind'] == 'orthogonal']
            if not orth:
                return None
            parent = pick(orth, b)
            return ('add_state(history %r, orthogonal %r)' % (new, parent),
                    lambda: sc.add_state(mk_state('shallow', new), parent), 'error', None)
        if mode == 'second-root' and names:
            return ('add_state(%r, None) with a root' % new,
                    lambda: sc.add_state(mk_state('basic', new), None), 'error', None)
        return None
    if k == 'remove_state':
        if not valid:
            return ('remove_state(unknown)', lambda: sc.remove_state('nope'), 'error', None)
        if not names:
            return None
        n = pick(names, a)
        def eff():
            gone = m.descendants(n) | {n}
            m.removed = getattr(m, 'removed', set()) | gone
            for g in gone:
                del m.states[g]
            m.trs[:] = [t for t in m.trs if t['source'] not in gone and t['target'] not in gone]
            for v in m.states.values():
                if v['initial'] in gone:
                    v['initial'] = None
                if v['memory'] in gone:
                    v['memory'] = None
        return ('remove_state(%r)' % n, lambda: sc.remove_state(n), 'ok', eff)
    if k == 'rename_state':
        if not names:
            return None
        n = pick(names, a)
        if not valid:
            mode = pick(['to-existing', 'unknown'], b)
            others = [x for x in names if x != n]
            if mode == 'to-existing' and others:
                o = pick(others, c)
                return ('rename_state(%r, existing %r)' % (n, o),
                        lambda: sc.rename_state(n, o), 'error', None)
            return ('rename_state(unknown, new)', lambda: sc.rename_state('nope', 'nope2'),
                    'error', None)
        m.fresh += 1
        new = n if c % 10 == 0 else 'r%d' % m.fresh
        def eff():
            if new == n:
                return
            m.states[new] = m.states.pop(n)
            for v in m.states.values():
                for key in ('parent', 'initial', 'memory'):
                    if v[key] == n:
                        v[key] = new
            for t in m.trs:
                if t['source'] == n:
                    t['source'] = new
                if t['target'] == n:
                    t['target'] = new
        return ('rename_state(%r, %r)' % (n, new), lambda: sc.rename_state(n, new), 'ok', eff)
    if k == 'move_state':
        if not names:
            return None
        n = pick(names, a)
        if not valid:
            mode = pick(['into-self', 'into-descendant', 'unknown-parent', 'unknown-state'], b)
            if mode == 'into-self':
                return ('move_state(%r, itself)' % n, lambda: sc.move_state(n, n), 'error', None)
            if mode == 'into-descendant':
                ds = sorted(m.descendants(n))
                if not ds:
                    return None
                t = pick(ds, c)
                return ('move_state(%r, descendant %r)' % (n, t),
                        lambda: sc.move_state(n, t), 'error', None)
            if mode == 'unknown-parent':
                return ('move_state(%r, unknown)' % n, lambda: sc.move_state(n, 'nope'),
                        'error', None)
            return ('move_state(unknown, %r)' % n, lambda: sc.move_state('nope', n), 'error', None)
        pool = compounds if m.states[n]['kind'] in HISTORY else composites
        pool = [p for p in pool if p != n and p not in m.descendants(n)]
        if not pool:
            return None
        p = pick(pool, b)
        def eff():
            m.states[n]['parent'] = p
            if m.states[n]['kind'] in HISTORY:
                m.states[n]['memory'] = None
            for v in m.states.values():
                if v['initial'] == n:
                    v['initial'] = None
                if v['memory'] == n:
                    v['memory'] = None
        return ('move_state(%r, %r)' % (n, p), lambda: sc.move_state(n, p), 'ok', eff)
    if k == 'add_transition':
        m.fresh += 1
        act = 'x%d' % m.fresh
        ev = pick([None, 'e0', 'e1'], d)
        if valid and m.trs and d % 4 == 0:
            # an equal duplicate of a registered transition (Transition.__eq__ is by value), or
            # a look-alike that differs in priority only
            x = dict(pick(m.trs, a))
            if d % 8 == 4:
                x['priority'] = x['priority'] + (1 if c % 2 else -1)

            def eff_dup():
                m.trs.append(dict(x))
            return ('add_transition(duplicate of %r -> %r, priority %r)' % (
                x['source'], x['target'], x['priority']),
                    lambda: sc.add_transition(sm.Transition(x['source'], x['target'],
                                                            event=x['event'], action=x['action'],
                                                            priority=x['priority'])),
                    'ok', eff_dup)
        if valid:
            if not owners:
                return None
            s = pick(owners, a)
            t = pick([None] + names, b)
            def eff():
                m.trs.append({'source': s, 'target': t, 'event': ev, 'action': act,
                              'priority': 0})
            return ('add_transition(%r -> %r)' % (s, t),
                    lambda: sc.add_transition(sm.Transition(s, t, event=ev, action=act)), 'ok', eff)
        mode = pick(['unknown-source', 'non-owner', 'unknown-target'], c)
        if mode == 'unknown-source':
            return ('add_transition(unknown source)',
                    lambda: sc.add_transition(sm.Transition('nope', None, action=act)),
                    'error', None)
        if mode == 'non-owner':
            no = [n for n in names if m.states[n]['kind'] not in TRANSITION_OWNERS]
            if not no:
                return None
            s = pick(no, a)
            return ('add_transition(from %s %r)' % (m.states[s]['kind'], s),
                    lambda: sc.add_transition(sm.Transition(s, None, action=act)), 'error', None)
        if not owners:
            return None
        s = pick(owners, a)
        return ('add_transition(%r -> unknown)' % s,
                lambda: sc.add_transition(sm.Transition(s, 'nope', action=act)), 'error', None)
    if k == 'remove_transition':
        if not valid:
            return ('remove_transition(unregistered)',
                    lambda: sc.remove_transition(sm.Transition(pick(names, a) or 'nope', None,
                                                               action='never added')),
                    'error', None)
        regs = sc.transitions
        if not regs:
            return None
        t = pick(regs, a)
        key = (t.source, t.target, t.event, t.action, t.priority)
        def eff():
            for i, x in enumerate(m.trs):
                if (x['source'], x['target'], x['event'], x['action'], x['priority']) == key:
                    del m.trs[i]
                    return
            raise AssertionError('model lacks transition %r' % (key,))
        return ('remove_transition(%r)' % (key,), lambda: sc.remove_transition(t), 'ok', eff)
    if k == 'rotate_transition':
        regs = sc.transitions
        if not valid:
            mode = pick(['nothing', 'unregistered', 'unknown-source', 'non-owner-source',
                         'unknown-target', 'valid-source-unknown-target'], b)
            if mode == 'unregistered':
                tr = sm.Transition(pick(names, a) or 'nope', None, action='never added')
                return ('rotate_transition(unregistered)',
                        lambda: sc.rotate_transition(tr, new_target=None), 'error', None)
            if not regs:
                return None
            t = pick(regs, a)
            if mode == 'nothing':
                return ('rotate_transition(t)', lambda: sc.rotate_transition(t), 'error', None)
            if mode == 'unknown-source':
                return ('rotate_transition(t, new_source=unknown)',
                        lambda: sc.rotate_transition(t, new_source='nope'), 'error', None)
            if mode == 'non-owner-source':
                no = [n for n in names if m.states[n]['kind'] not in TRANSITION_OWNERS]
                if not no:
                    return None
                s = pick(no, c)
                return ('rotate_transition(t, new_source=%s %r)' % (m.states[s]['kind'], s),
                        lambda: sc.rotate_transition(t, new_source=s), 'error', None)
            if mode == 'unknown-target':
                return ('rotate_transition(t, new_target=unknown)',
                        lambda: sc.rotate_transition(t, new_target='nope'), 'error', None)
            others = [o for o in owners if o != t.source]
            if not others:
                return None
            s = pick(others, c)
            return ('rotate_transition(t from %r, new_source=%r, new_target=unknown)' % (
                t.source, s), lambda: sc.rotate_transition(t, new_source=s, new_target='nope'),
                'error', None)
        if not regs or not owners:
            return None
        t = pick(regs, a)
        key = (t.source, t.target, t.event, t.action, t.priority)
        mode = pick(['source', 'target', 'both', 'to-internal'], b)
        ns = pick(owners, c)
        nt = pick(names, d)
        kw = {}
        if mode in ('source', 'both'):
            kw['new_source'] = ns
        if mode in ('target', 'both'):
            kw['new_target'] = nt
        if mode == 'to-internal':
            kw['new_target'] = None
        def eff():
            for x in m.trs:
                if (x['source'], x['target'], x['event'], x['action'], x['priority']) == key:
                    if 'new_source' in kw:
                        x['source'] = kw['new_source']
                    if 'new_target' in kw:
                        x['target'] = kw['new_target']
                    return
            raise AssertionError('model lacks transition %r' % (key,))
        return ('rotate_transition(%r, %r)' % (key, kw), lambda: sc.rotate_transition(t, **kw),
                'ok', eff)
    if k == 'set_ref':
        cands = []
        for n in names:
            v = m.states[n]
            if v['kind'] == 'compound':
                ch = m.children(n)
                if ch:
                    cands.append((n, 'initial', pick(ch, b)))
            if v['kind'] in HISTORY:
                sibs = [x for x in m.children(v['parent']) if x != n]
                if sibs:
                    cands.append((n, 'memory', pick(sibs, b)))
        if not cands:
            return None
        n, attr, val = pick(cands, a)
        def eff():
            m.states[n][attr] = val
        return ('%r.%s = %r' % (n, attr, val),
                lambda: setattr(sc.state_for(n), attr, val), 'ok', eff)
    return None


def oracle(case):
    from ..cli import sha
    from sismic.exceptions import StatechartError
    spec = copy.deepcopy(case['spec'])
    for t in spec['transitions']:
        t['action'] = 'a%d' % t['id']
    sc = to_statechart(spec)
    m = Model(spec)
    viol, labels = [], {}
    ok_kinds, n_ok, n_rej = set(), 0, 0
    trace = []
    if observe(sc) != m.observe():
        return {'violations': [{'prop': PROP, 'kind': 'harness-model-mismatch-at-start',
                                'step': -1, 'detail': {}}], 'labels': {}, 'keys': []}
    for i, op in enumerate(case['ops']):
        p = plan(m, sc, op)
        if p is None:
            continue
        desc, call, expect, eff = p
        before = observe(sc)
        trace.append(desc)
        try:
            call()
            raised = None
        except (StatechartError, ValueError) as e:
            raised = e
        except Exception as e:
            viol.append({'prop': PROP, 'kind': 'wrong-exception-type', 'step': i,
                         'detail': {'op': desc, 'exc': type(e).__name__, 'msg': str(e)[:200],
                                    'trace': trace[-6:]}})
            break
        after = observe(sc)
        if raised is not None:
            n_rej += 1
            labels['rejected ' + op[0]] = labels.get('rejected ' + op[0], 0) + 1
            if after != before:
                diff = {k: [before[k], after[k]] for k in before if before[k] != after[k]}
                if 'states' in diff:
                    b, a = diff['states']
                    diff['states'] = {n: [b.get(n), a.get(n)] for n in set(b) | set(a)
                                      if b.get(n) != a.get(n)}
                viol.append({'prop': PROP, 'kind': 'failed-edit-changed-statechart', 'step': i,
                             'detail': {'op': desc, 'exc': type(raised).__name__,
                                        'changed': diff, 'trace': trace[-6:]}})
                break
            if expect == 'ok':
                viol.append({'prop': PROP, 'kind': 'valid-edit-rejected', 'step': i,
                             'detail': {'op': desc, 'exc': type(raised).__name__,
                                        'msg': str(raised)[:200], 'trace': trace[-6:]}})
                break
            continue
        if expect == 'error':
            viol.append({'prop': PROP, 'kind': 'invalid-edit-accepted', 'step': i,
                         'detail': {'op': desc, 'trace': trace[-6:]}})
            break
        eff()
        n_ok += 1
        ok_kinds.add(op[0])
        labels['ok ' + op[0]] = labels.get('ok ' + op[0], 0) + 1
        want = m.observe()
        if after != want:
            diff = {}
            for k in want:
                if want[k] != after[k]:
                    if k == 'states':
                        diff[k] = {n: {'model': want[k].get(n), 'actual': after[k].get(n)}
                                   for n in set(want[k]) | set(after[k])
                                   if want[k].get(n) != after[k].get(n)}
                    elif k == 'transitions':
                        diff[k] = {'only_model': [t for t in want[k] if t not in after[k]],
                                   'only_actual': [t for t in after[k] if t not in want[k]]}
                    else:
                        diff[k] = {'model': want[k], 'actual': after[k]}
            viol.append({'prop': PROP, 'kind': 'edit-effect-differs-from-documentation', 'step': i,
                         'detail': {'op': desc, 'diff': diff, 'trace': trace[-6:]}})
            break
        bad = invariants(sc)
        if bad:
            viol.append({'prop': PROP, 'kind': 'statechart-unsound-after-edit', 'step': i,
                         'detail': {'op': desc, 'problems': bad[:5], 'trace': trace[-6:]}})
            break
    keys = [sha(case)] if (n_ok >= 3 and len(ok_kinds) >= 2 and n_rej >= 1) else []
    labels['sequences'] = 1
    return {'violations': viol, 'labels': labels, 'keys': keys,
            'sample': {'initial_states': len(case['spec']['states']), 'operations': trace[:14]}}
