"""C05 Event queues: one event per step, internal first, FIFO, delays respected."""
from hypothesis import strategies as st
from .. import gen
from ..core import core_oracle

PROP = 'C05'
LEVEL = 'exploration'
BUDGET = {'quick': 9600, 'thorough': 160000}
RULE = ('cases = any well-formed chart whose fragments send internal events with and without '
        'delay + 10-40 ops over queue(str)/queue(Event)/queue(..., delay)/advance/step with '
        'delays and advances from {0,1/4,1/2,1,2,5} (equal due times frequent). A queue model '
        '(due = interpreter time + delay, arrival number) predicts the consumed event of every '
        'step; epilogue with all guards false and the clock past every due time checks every uid '
        'was consumed exactly once. Non-trivial = history with a delayed event and >=2 events '
        'sharing a due time, or with internal and external events pending at once; distinct = '
        'sha1(chart, op list).')
ASSUMPTIONS = ['due time is relative to the interpreter time (property statement), not the clock']


def strategy(tier):
    @st.composite
    def cases(draw):
        spec = draw(gen.charts(max_states=9, p_sends=0.4, send_delays=True, max_tr=10,
                               p_eventless=0.1, p_aguard=0.15))
        ops = draw(gen.histories(spec, 10, 40, advances=True, delays=True, as_event=True,
                                 extra_events=1, p_all=0.3, p_none=0.3))
        return {'spec': spec, 'ops': ops}
    return cases()


def oracle(case):
    from ..cli import sha
    r = core_oracle(case, PROP, epilogue=True)
    # non-triviality is a property of the whole history here
    ops = case['ops']
    delayed = any(o[0] == 'q' and o[2] is not None for o in ops)
    lab = r['labels']
    nontrivial = (delayed and lab.get('event consumed', 0) >= 2) or (
        lab.get('event consumed', 0) >= 3)
    r['keys'] = [sha([case['spec'], ops])] if nontrivial else []
    return r
