"""C05 Event queues: one event per step, internal first, FIFO, delays respected."""
from hypothesis import strategies as st
from .. import gen
from ..core import core_oracle

PROP = 'C05'
LEVEL = 'exploration'
BUDGET = {'quick': 9600, 'thorough': 160000}
RULE = ('cases = any well-formed chart whose fragments send internal events with and without '
        'delay + 10-40 ops over queue(str)/queue(Event)/queue(..., delay)/advance/step with '
        'delays and advances from {0,1/4,1/2,1,2,5} (equal due times frequent). A queue model '
        '(due = interpreter time + delay, arrival number) predicts the consumed event of every '
        'step; epilogue with all guards false and the clock past every due time checks every uid '
        'was consumed exactly once; the class (internal/external) of the consumed event is compared '
        'too, and in a quarter of the cases the events carry no uid, so that internal and external '
        'events of one name and delay are equal objects. Non-trivial = history with a delayed event and >=2 events '
        'sharing a due time, or with internal and external events pending at once; distinct = '
        'sha1(chart, op list).')
ASSUMPTIONS = ['due time is relative to the interpreter time (property statement), not the clock']


def strategy(tier):
    @st.composite
    def cases(draw):
        spec = draw(gen.charts(max_states=9, p_sends=0.4, send_delays=True, max_tr=10,
                               p_eventless=0.1, p_aguard=0.15))
        ops = draw(gen.histories(spec, 10, 40, advances=True, delays=True, as_event=True,
                                 extra_events=1, p_all=0.3, p_none=0.3, big_jump=True))
        # anonymous events (a quarter of the cases): nothing but class, name and delay tells an
        # internal event from an external one
        return {'spec': spec, 'ops': ops, 'nouid': draw(st.integers(0, 3)) == 0,
                'faults': draw(gen.faults(ops)),
                'empty_event': draw(st.integers(0, 3)) == 0}
    return cases()


def oracle(case):
    from ..cli import sha
    if case.get('nouid'):
        import copy
        case = copy.deepcopy(case)
        for o in case['spec']['states'] + case['spec']['transitions']:
            for k in ('sends', 'sends_entry', 'sends_exit'):
                for s_ in o.get(k) or []:
                    s_['nouid'] = True
                    if s_.get('delay') is not None:
                        s_['delay'] = 1       # one delay value: equal events are frequent
        case['ops'] = [[op[0], op[1], None if op[2] is None else 1, op[3], None]
                       if op[0] == 'q' else op for op in case['ops']]
    r = core_oracle(case, PROP, epilogue=True)
    if case.get('nouid'):
        r['labels']['histories with anonymous events'] = 1
    # non-triviality is a property of the whole history here
    ops = case['ops']
    delayed = any(o[0] == 'q' and o[2] is not None for o in ops)
    lab = r['labels']
    nontrivial = (delayed and lab.get('event consumed', 0) >= 2) or (
        lab.get('event consumed', 0) >= 3)
    r['keys'] = [sha([case['spec'], ops])] if nontrivial else []
    return r
