"""C18 A pickled or deep-copied interpreter continues exactly like the original."""
import copy
import pickle

from hypothesis import strategies as st

from .. import gen, probes
from ..run import Drive
from ..spec import to_statechart

PROP = 'C18'
LEVEL = 'fault_enumeration'
BUDGET = {'quick': 2400, 'thorough': 16000}
RULE = ('cases = well-formed chart instrumented with data-only probes (contracts whose conditions '
        'read __old__, history states, delayed internal and external events, after/idle guards) + '
        'history of 8-20 ops. A control run gives the reference signature; for macro-step '
        'boundaries b (quick: <=5 sampled; thorough: every boundary) and both pickle round-trip '
        'and copy.deepcopy, the restored interpreter fed the remaining ops must produce exactly '
        'the reference suffix (steps, contexts, condition evaluations incl. __old__, history '
        'restorations, delayed events becoming due; in half of the cases the external events carry '
        'a list that the consuming transitions read and extend in place; in a quarter one source '
        'text serves both as executed code and as a guard; in half there are transitions from a '
        'child state to its parent\'s history state) and so must the original continued after the '
        'snapshot. Non-trivial = snapshot taken while a state with an __old__-reading '
        'postcondition/invariant is active, a history memory is set, or a delayed event is '
        'pending; distinct = sha1(chart, history, b, method).')
ASSUMPTIONS = ['the execution context holds plain data only (lists, dicts, ints), as pickling '
               'requires', 'no listeners other than a bound property statechart are attached']
MIX = (('sibling', 30), ('other', 15), ('orthin', 10), ('anc', 15), ('desc', 5), ('hist', 15),
       ('internal', 10))


def strategy(tier):
    big = tier == 'thorough'

    @st.composite
    def cases(draw):
        spec = draw(gen.charts(max_states=10, mix=MIX, p_sends=0.3, send_delays=True, max_tr=10,
                               p_hist=0.6))
        spec = draw(gen.with_contracts(spec, p=0.5))
        spec = draw(gen.with_time_guards(spec, p=0.2))
        ops = draw(gen.histories(spec, 8, 20, p_all=0.45, p_none=0.1, advances=True, delays=True))
        nsteps = len(ops)
        bs = None if big else draw(st.lists(st.integers(1, nsteps - 1), min_size=2, max_size=5,
                                            unique=True))
        # counter 'n': fragments mutate a nested list in place; conditions read it through __old__
        # payload: external events carry a list that the consuming transitions read and extend
        return {'spec': spec, 'ops': ops, 'bs': bs,
                'counter': draw(st.sampled_from(['v', 'n', 'o', 't'])),
                'payload': draw(st.booleans()),
                # shared_text: one source text is used both as executed code (actions, entry
                # code) and as evaluated code (guards)
                'shared_text': draw(st.integers(0, 3)) == 0,
                # inner_hist: transitions from a child of P to P's own history state (C18
                # quantifies over every statechart, not only the well-formed ones of DESIGN.md 2):
                # the memory of the last exit is read while P stays active
                'inner_hist': draw(st.booleans()),
                # watchdog: a property statechart that fails after that much time is bound
                'watchdog': draw(st.sampled_from([None, None, 0.75, 1.5, 3, 6]))}
    return cases()


def clean(ctx):
    return {k: repr(ctx[k]) for k in sorted(ctx) if k not in ('gv',)}


BAG = ("log.append(('bag', len(getattr(event, 'bag', []))))\n"
       "getattr(event, 'bag', []).append(1)")


def apply_op(d, op, sig, payload=False):
    if op[0] == 'q':
        d.queue(op[1], delay=op[2], mode=op[3], uid=op[4],
                params={'bag': [0]} if payload else None)
    elif op[0] == 'adv':
        d.advance(op[1])
    else:
        gv = list(op[1]) + [True] * (len(d.spec['transitions']) - len(op[1]))
        rec = d.step(gv)
        sig.append({'result': rec['result'], 'exc': rec['exc'],
                    'msg': str(rec['exc_obj'])[:200] if rec['exc'] else None,
                    'config': rec['config_after'], 'log': [list(x) for x in rec['log']],
                    'glog': [list(x) for x in rec['glog']],
                    'v': rec['v_after'], 'time': rec['time_after'], 'final': rec['final'],
                    'context': clean(d.ctx)})


def watchdog(D):
    """property statechart that fails once D time units have passed (time-dependent, no code)"""
    from sismic.model import Statechart, CompoundState, BasicState, FinalState, Transition
    p = Statechart('watchdog')
    p.add_state(CompoundState('r', initial='a'), None)
    p.add_state(BasicState('a'), 'r')
    p.add_state(FinalState('f'), 'r')
    p.add_transition(Transition('a', 'f', guard='after(%r)' % D))
    return p


def fresh(spec, prop=None):
    d = Drive(spec, ignore_contract=False)
    if prop:
        # a bound property statechart (its interpreter and synchronised clock are part of what
        # is pickled / copied)
        d.interp.bind_property_statechart(watchdog(prop))
    ncond = sum(len(o.get('c_' + k) or []) for o in spec['states'] + spec['transitions']
                for k in ('pre', 'post', 'inv'))
    d.ctx['cv'].update({c: True for c in range(1, ncond + 1)})
    return d


def first_diff(a, b):
    for i, (x, y) in enumerate(zip(a, b)):
        if x != y:
            f = [k for k in x if x[k] != y[k]]
            return {'suffix_step': i, 'fields': f, 'reference': {k: x[k] for k in f if k != 'context'},
                    'got': {k: y[k] for k in f if k != 'context'}}
    if len(a) != len(b):
        return {'suffix_step': min(len(a), len(b)), 'fields': ['length']}
    return None


def oracle(case):
    from ..cli import sha
    spec = probes.instrument(case['spec'], contracts=True, counter=case.get('counter', 'v'))
    ops = case['ops']
    viol, labels, keys = [], {}, []
    payload = bool(case.get('payload'))
    if payload:
        for t in spec['transitions']:
            if t.get('event'):
                t['action'] = (t.get('action') or 'pass') + '\n' + BAG
    n_extra = 0
    if case.get('inner_hist'):
        nxt = max([t['id'] for t in spec['transitions']] + [0]) + 1
        for h in [x for x in spec['states'] if x['kind'] in ('shallow', 'deep')]:
            sibs = [x['name'] for x in spec['states'] if x['parent'] == h['parent']
                    and x['kind'] in ('basic', 'compound', 'orthogonal')]
            for k, sib in enumerate(sibs[:2]):
                spec['transitions'].append(
                    {'id': nxt, 'source': sib, 'target': h['name'], 'event': 'e%d' % (k % 2),
                     'guard': probes.guard_code(nxt), 'action': probes.action_code(nxt),
                     'priority': 0})
                nxt += 1
                n_extra += 1
        if n_extra:
            labels['runs with transitions from inside a state to its own history state'] = 1
    if case.get('shared_text'):
        S = "(glog.append('S') or True)"
        for k, t in enumerate(spec['transitions']):
            if k % 3 == 0:
                t['guard'] = S
            elif k % 3 == 1:
                t['action'] = S
        for k, x in enumerate(spec['states']):
            if k % 3 == 2 and x['kind'] not in ('shallow', 'deep'):
                x['on_exit'] = S
        labels['runs where one text is both executed and evaluated'] = 1
    prop = case.get('watchdog')
    if prop:
        labels['runs with a bound time-out property statechart'] = 1
    d0 = fresh(spec, prop)
    ref = []
    steps_before = []     # number of step signatures produced before op index b
    interesting = []
    old_states = set(s['name'] for s in spec['states'] if s.get('c_post') or s.get('c_inv'))
    for b, op in enumerate(ops):
        steps_before.append(len(ref))
        interesting.append(bool(
            (set(d0.interp.configuration) & old_states)
            or d0.interp._memory
            or any(t > d0.interp.time for t, _ in d0.interp._internal_queue + d0.interp._external_queue)))
        apply_op(d0, op, ref, payload)
    labels['runs'] = 1
    h = sha([case['spec'], ops])
    bs = case['bs'] if case.get('bs') is not None else list(range(1, len(ops)))
    for b in bs:
        if b >= len(ops):
            continue
        for method in ('pickle', 'deepcopy'):
            d = fresh(spec, prop)
            sig = []
            for op in ops[:b]:
                apply_op(d, op, sig, payload)
            if sig != ref[:steps_before[b]]:
                viol.append({'prop': PROP, 'kind': 'not-repeatable', 'step': b, 'detail': {}})
                break
            try:
                if method == 'pickle':
                    clone = pickle.loads(pickle.dumps(d.interp))
                else:
                    clone = copy.deepcopy(d.interp)
            except Exception as e:
                viol.append({'prop': PROP, 'kind': 'snapshot-failed', 'step': b,
                             'detail': {'method': method, 'exc': type(e).__name__,
                                        'msg': str(e)[:300]}})
                break
            dc = Drive(spec, interpreter=clone)
            dc.started = d.started
            want = ref[steps_before[b]:]
            so, sc_ = [], []
            for op in ops[b:]:
                apply_op(dc, op, sc_, payload)
            for op in ops[b:]:
                apply_op(d, op, so, payload)
            labels['snapshots (%s)' % method] = labels.get('snapshots (%s)' % method, 0) + 1
            dd = first_diff(want, sc_)
            if dd:
                dd.update({'boundary': b, 'method': method})
                viol.append({'prop': PROP, 'kind': 'restored-run-diverges', 'step': b,
                             'detail': dd})
                break
            dd = first_diff(want, so)
            if dd:
                dd.update({'boundary': b, 'method': method})
                viol.append({'prop': PROP, 'kind': 'snapshot-disturbs-original', 'step': b,
                             'detail': dd})
                break
            if interesting[b]:
                keys.append(sha([h, b, method]))
        if viol:
            break
    return {'violations': viol, 'labels': labels, 'keys': keys,
            'sample': {'n_states': len(case['spec']['states']), 'n_ops': len(ops),
                       'boundaries': bs[:10]}}
