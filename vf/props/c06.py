"""C06 History states restore exactly what was active."""
from hypothesis import strategies as st
from .. import gen
from ..core import core_oracle

PROP = 'C06'
LEVEL = 'exploration'
BUDGET = {'quick': 9600, 'thorough': 128000}
RULE = ('cases = well-formed chart forced to contain history states (shallow and deep, nested '
        'compound/orthogonal content below the parent) with transitions moving inside the parent, '
        'leaving it, and re-entering through the history state + history of 10-30 ops. The model '
        'snapshots the active descendants of a history parent whenever it is exited; every '
        'history replacement must enter exactly the remembered child (shallow) / the remembered '
        'sub-configuration, parents first (deep) / the declared memory (never exited). '
        'Non-trivial = a restoration from a snapshot (shallow: differing from the initial '
        'child); distinct = sha1(chart, history state, snapshot).')
ASSUMPTIONS = ['the configuration at micro-step boundaries is obtained by replaying the exited/'
               'entered lists, which C03 validates against the executed code']
MIX = (('sibling', 30), ('other', 15), ('orthin', 5), ('anc', 10), ('desc', 5), ('hist', 25),
       ('internal', 10))


def strategy(tier):
    big = tier == 'thorough'

    @st.composite
    def cases(draw):
        spec = draw(gen.charts(max_states=16 if big else 13, mix=MIX, p_hist=0.7,
                               force_history=True, p_orth_root=0.15, allow_final=False,
                               n_events=3, min_tr=6, max_tr=16, p_eventless=0.1, p_aguard=0.15))
        ops = draw(gen.histories(spec, 10, 30, p_all=0.4, p_none=0.05))
        return {'spec': spec, 'ops': ops, 'faults': draw(gen.faults(ops))}
    return cases()


def oracle(case):
    return core_oracle(case, PROP)
