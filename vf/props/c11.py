"""C11 YAML export/import round-trip is lossless."""
import io
import re

from hypothesis import strategies as st

from .. import gen, prelude, probes
from ..spec import from_statechart, to_statechart, to_yaml_text

PROP = 'C11'
LEVEL = 'exploration'
BUDGET = {'quick': 3200, 'thorough': 64000}
RULE = ('cases = (A) well-formed tree shape whose names, events, description, preamble and every '
        'code/contract string come from a text strategy mixing identifiers, YAML indicators, '
        'boolean/null/number look-alikes, surrounding/inner whitespace, multi-line text, long '
        'lines, control, combining and non-BMP characters; built through the API or from '
        'harness-generated YAML text; (B) instrumented executable chart (+contracts) with an input '
        'history; before each case one or two unrelated documents (with %YAML 1.1 / 1.2 or %TAG '
        'directives, rejected ones, anchors) are imported in the same process. Oracle A: import(export(sc)) returns and has the same name/description/preamble, '
        'states (kind, parent, children set, initial/memory, entry/exit code, contract lists) and '
        'transition multiset, code modulo strip(); == between states / transitions for code '
        'without surrounding whitespace; exporting the re-import is idempotent. Oracle B: original, '
        're-import and re-re-import produce equal run signatures. Strings ruamel itself cannot '
        'round-trip in unfolded block style (U+0085) are excluded by construction and counted. '
        'Non-trivial: A - some string cannot be written as a plain YAML scalar; B - history fires '
        '>=3 transitions; distinct = sha1(case).')
ASSUMPTIONS = ['code strings are absent or non-blank, events have no surrounding whitespace '
               '(DESIGN.md W9); empty description/preamble are not generated (the format drops '
               'the key)', 'characters ruamel.yaml cannot round-trip on its own are out of scope']

LOOKALIKES = ['yes', 'no', 'true', 'false', 'null', '~', 'on', 'off', 'y', 'n', '1e3', '0x10',
              '1_000', '2001-01-01', '1.0', '-1', '0', '.inf', '.nan', '0o7', '1:30', '+1',
              'None', 'NULL', 'True', '<<', '=']
INDICATORS = [': a', '- a', '# c', '? a', '| x', '> x', '&a', '*a', '!t', '%d', '@x', '`x`',
              '{a: b}', '[a]', "'q'", '"dq"', 'a: b', 'a #b', 'a:', ':', '-', '?', '---', '...',
              '{', '}', '[', ']', ',', 'a, b', '\\n', '\\', "it's", 'say "x"', '- - a', '? : x',
              '!!str x', '&a *a', 'key: [1, 2]', '#', ' #', '|', '>', '|-', '>+', '% x']
CHARS = list('abcxyzABC019_ -:#?|>&*!%@`{}[],\'"\\=<~.\t\r\n') + [
    '\u00e9', '\u0301', '\u00a0', '\u2028', '\u2029', '\ufeff', '\U0001F600', '\x00', '\x07',
    '\x1b', '\x7f', '\x9f', '\ud7ff', '\ue000', '\ufffd']


def atoms():
    return st.one_of(st.sampled_from(LOOKALIKES), st.sampled_from(INDICATORS),
                     st.text(alphabet=st.sampled_from(CHARS), min_size=1, max_size=10),
                     st.text(alphabet='abcxyz_019', min_size=1, max_size=8),
                     st.text(min_size=1, max_size=8))


def texts():
    line = st.lists(atoms(), min_size=1, max_size=3).map(' '.join)
    return st.one_of(
        atoms(), atoms(), line,
        st.lists(atoms(), min_size=1, max_size=4).map(''.join),
        st.lists(st.one_of(line, st.sampled_from(['', ' ', '  x  ', 'x ', '\t'])), min_size=2,
                 max_size=4).map('\n'.join),
        st.tuples(st.sampled_from([' ', '  ', '\n', '\t', '']), line,
                  st.sampled_from([' ', '\n', '\n\n', '\t', ''])).map(''.join),
        st.lists(atoms(), min_size=12, max_size=30).map(' '.join),      # long lines (> 80)
    )


_RT_CACHE = {}


def ruamel_roundtrips(s):
    """does ruamel.yaml on its own (block style) round-trip this string as a value and a name?"""
    r = _RT_CACHE.get(s)
    if r is None:
        import ruamel.yaml
        try:
            y = ruamel.yaml.YAML(typ='safe', pure=True)
            y.default_flow_style = False
            y.width = 2 ** 31 - 1
            o = io.StringIO()
            y.dump({'k': [{'a': s}]}, o)
            back = ruamel.yaml.YAML(typ='safe', pure=True).load(o.getvalue())
            r = back == {'k': [{'a': s}]}
        except Exception:
            r = False
        if len(_RT_CACHE) < 50000:
            _RT_CACHE[s] = r
    return r


def plain_scalar(s):
    import ruamel.yaml
    y = ruamel.yaml.YAML(typ='safe', pure=True)
    y.default_flow_style = False
    y.width = 2 ** 31 - 1
    o = io.StringIO()
    y.dump([s], o)
    return o.getvalue() == '- ' + s + '\n'


def all_strings(spec):
    out = [spec.get('name'), spec.get('description'), spec.get('preamble')]
    for s in spec['states']:
        out += [s['name'], s.get('on_entry'), s.get('on_exit')]
        out += (s.get('pre') or []) + (s.get('post') or []) + (s.get('inv') or [])
    for t in spec['transitions']:
        out += [t.get('event'), t.get('guard'), t.get('action')]
        out += (t.get('pre') or []) + (t.get('post') or []) + (t.get('inv') or [])
    return [x for x in out if isinstance(x, str)]


def strategy(tier):
    big = tier == 'thorough'
    ok_text = texts().filter(lambda s: s != '')
    code = ok_text.filter(lambda s: s.strip() != '')
    event = ok_text.filter(lambda s: s.strip() == s and s != '')

    @st.composite
    def domain_a(draw):
        spec = draw(gen.charts(max_states=12 if big else 8, max_tr=8, min_tr=1))
        n = len(spec['states'])
        names = draw(st.lists(ok_text, min_size=n, max_size=n, unique=True))
        ren = {s['name']: nm for s, nm in zip(spec['states'], names)}
        evmap = {'e%d' % i: draw(event) for i in range(3)}
        opt = lambda strat: draw(st.one_of(st.none(), strat))  # noqa: E731
        conds = lambda: draw(st.lists(code, max_size=2))  # noqa: E731
        for s in spec['states']:
            s['name'] = ren[s['name']]
            for k in ('parent', 'initial', 'memory'):
                if s.get(k) is not None:
                    s[k] = ren[s[k]]
            s['on_entry'], s['on_exit'] = opt(code), opt(code)
            s['pre'], s['post'], s['inv'] = conds(), conds(), conds()
        for t in spec['transitions']:
            t['source'] = ren[t['source']]
            t['target'] = ren[t['target']] if t.get('target') is not None else None
            t['event'] = evmap[t['event']] if t.get('event') is not None else None
            t['guard'], t['action'] = opt(code), opt(code)
            t['pre'], t['post'], t['inv'] = conds(), conds(), conds()
            if draw(st.floats(0, 1)) < 0.2:
                t['priority'] = draw(st.one_of(
                    st.integers(-10**6, 10**6),
                    # integers a double cannot represent
                    st.sampled_from([2 ** 53 + 1, -(2 ** 53 + 1), 10 ** 30, 2 ** 63 - 1,
                                     2 ** 64 + 3])))
        spec['name'] = draw(ok_text)
        spec['description'] = opt(ok_text)
        spec['preamble'] = opt(ok_text)
        return {'kind': draw(st.sampled_from(['api', 'api', 'yaml'])), 'spec': spec,
                'prelude': draw(prelude.strategy())}

    @st.composite
    def domain_b(draw):
        spec = draw(gen.charts(max_states=12, p_sends=0.3, p_notify=0.1, send_delays=True,
                               p_orth_root=0.4))
        spec = draw(gen.with_contracts(spec, p=0.3))
        ops = draw(gen.histories(spec, 8, 20, p_all=0.45, advances=True, delays=True))
        return {'kind': 'behaviour', 'spec': spec, 'ops': ops,
                'prelude': draw(prelude.strategy())}
    return st.one_of(domain_a(), domain_a(), domain_b())


def strip(x):
    return x.strip() if isinstance(x, str) else x


def structure(sc):
    """comparable view of a Statechart: code modulo strip(), children as sets, transitions as a
    sorted multiset"""
    o = from_statechart(sc)
    states = {}
    for s in o['states']:
        states[s['name']] = {
            'kind': s['kind'], 'parent': s['parent'], 'initial': s['initial'],
            'memory': s['memory'], 'on_entry': strip(s['on_entry']), 'on_exit': strip(s['on_exit']),
            'pre': [strip(c) for c in s['pre']], 'post': [strip(c) for c in s['post']],
            'inv': [strip(c) for c in s['inv']],
            'children': sorted(sc.children_for(s['name']))}
    trs = sorted(repr([t['source'], t['target'], t['event'], strip(t['guard']), strip(t['action']),
                       t['priority'], [strip(c) for c in t['pre']], [strip(c) for c in t['post']],
                       [strip(c) for c in t['inv']]]) for t in o['transitions'])
    return {'name': o['name'], 'description': o['description'], 'preamble': o['preamble'],
            'root': sc.root, 'states': states, 'transitions': trs}


def diff_structure(a, b):
    for k in ('name', 'description', 'preamble', 'root'):
        if a[k] != b[k]:
            return {'field': k, 'original': a[k], 'reimported': b[k]}
    if sorted(a['states']) != sorted(b['states']):
        return {'field': 'state names', 'original': sorted(a['states']),
                'reimported': sorted(b['states'])}
    for n in a['states']:
        if a['states'][n] != b['states'][n]:
            f = [k for k in a['states'][n] if a['states'][n][k] != b['states'][n][k]]
            return {'field': 'state', 'state': n, 'attributes': f,
                    'original': {k: a['states'][n][k] for k in f},
                    'reimported': {k: b['states'][n][k] for k in f}}
    if a['transitions'] != b['transitions']:
        return {'field': 'transitions',
                'only_original': [t for t in a['transitions'] if t not in b['transitions']][:3],
                'only_reimported': [t for t in b['transitions'] if t not in a['transitions']][:3]}
    return None


def V(kind, **detail):
    return {'prop': PROP, 'kind': kind, 'step': None, 'detail': detail}


def oracle_a(case):
    from ..cli import sha
    from sismic.io import import_from_yaml, export_to_yaml
    from sismic.exceptions import StatechartError
    spec = case['spec']
    strings = all_strings(spec)
    labels = {'domain A (%s)' % case['kind']: 1}
    if any('\x85' in s for s in strings) or not all(ruamel_roundtrips(s) for s in strings):
        labels['excluded: a string ruamel.yaml cannot round-trip itself'] = 1
        return {'violations': [], 'labels': labels, 'keys': []}
    viol = []
    if case['kind'] == 'yaml':
        text = to_yaml_text(spec)
        try:
            sc = import_from_yaml(text)
        except Exception as e:
            return {'violations': [V('valid-yaml-not-imported', exc=type(e).__name__,
                                     msg=str(e)[:300], text=text[:600])],
                    'labels': labels, 'keys': []}
    else:
        sc = to_statechart(spec)
    before = structure(sc)
    try:
        text1 = export_to_yaml(sc)
    except Exception as e:
        return {'violations': [V('export-raised', exc=type(e).__name__, msg=str(e)[:300])],
                'labels': labels, 'keys': []}
    if structure(sc) != before:
        return {'violations': [V('export-changed-the-statechart',
                                 **(diff_structure(before, structure(sc)) or {}))],
                'labels': labels, 'keys': []}
    try:
        sc2 = import_from_yaml(text1)
    except Exception as e:
        cause = e.__cause__
        return {'violations': [V('export-does-not-reimport', exc=type(e).__name__,
                                 cause=type(cause).__name__ if cause else None,
                                 msg=str(cause or e)[:300], exported=text1[:800])],
                'labels': labels, 'keys': []}
    after = structure(sc2)
    d = diff_structure(before, after)
    if d:
        viol.append(V('round-trip-loses-information', **d))
    else:
        # == clause, for code without surrounding whitespace
        if all(s == s.strip() for s in strings):
            labels['== clause checked'] = 1
            for n in sc.states:
                if not (sc2.state_for(n) == sc.state_for(n)):
                    o = sc.state_for(n)
                    viol.append(V('state-not-equal-to-its-reimport', state=n,
                                  state_class=type(o).__name__, on_entry=getattr(o, 'on_entry', None),
                                  on_exit=getattr(o, 'on_exit', None)))
                    break
            rest = list(sc2.transitions)
            for t in sc.transitions:
                for j, u in enumerate(rest):
                    if t == u:
                        del rest[j]
                        break
                else:
                    viol.append(V('transition-not-equal-to-its-reimport', transition=repr(t)))
                    break
        # idempotence
        if not viol:
            try:
                sc3 = import_from_yaml(export_to_yaml(sc2))
                d = diff_structure(after, structure(sc3))
                if d:
                    viol.append(V('second-round-trip-differs', **d))
            except Exception as e:
                viol.append(V('second-round-trip-raised', exc=type(e).__name__, msg=str(e)[:300]))
    # the same Statechart object, edited through the API and exported again: the second export
    # describes the edited statechart (nothing may be kept from the first export)
    if not viol:
        from sismic.model import Transition
        try:
            export_to_yaml(sc)       # export, edit, export again
            owners = [t.source for t in sc.transitions] or [sc.root]
            trs = list(sc.transitions)
            if trs:
                sc.remove_transition(trs[len(trs) // 2])
            src = owners[len(owners) // 2]
            tgt = sorted(sc.states)[len(sc.states) // 2]
            sc.add_transition(Transition(src, tgt, event='added_after_export'))
            sc.add_transition(Transition(sc.root, None, event='added_after_export', action='pass'))
            edited = structure(sc)
            d = diff_structure(edited, structure(import_from_yaml(export_to_yaml(sc))))
            if d:
                viol.append(V('export-after-edit-loses-information', **d))
            labels['re-export after editing the same object'] = 1
        except StatechartError:
            pass      # (the edit itself was not applicable to this chart)
    keys = []
    if any(not plain_scalar(s) for s in strings):
        keys.append(sha(case))
    nl = sum(1 for s in strings if '\n' in s)
    if nl:
        labels['cases with multi-line strings'] = 1
    return {'violations': viol, 'labels': labels, 'keys': keys,
            'sample': {'kind': case['kind'], 'strings': strings[:12]}}


def oracle_b(case):
    from ..cli import sha
    from sismic.io import import_from_yaml, export_to_yaml
    from .c07 import run_sig, first_diff
    spec = probes.instrument(case['spec'], contracts=True)
    labels = {'domain B (behaviour)': 1}
    ncond = sum(len(o.get('c_' + k) or []) for o in spec['states'] + spec['transitions']
                for k in ('pre', 'post', 'inv'))

    def sig(sc):
        from ..run import Drive
        d = Drive(spec, sc=sc, ignore_contract=False)
        d.ctx['cv'].update({c: True for c in range(1, ncond + 1)})
        out = []
        for op in case['ops']:
            if op[0] == 'q':
                d.queue(op[1], delay=op[2], mode=op[3], uid=op[4])
            elif op[0] == 'adv':
                d.advance(op[1])
            else:
                rec = d.step(op[1])
                out.append({'result': rec['result'], 'exc': rec['exc'],
                            'config': rec['config_after'],
                            'log': [list(x) for x in rec['log']], 'v': rec['v_after']})
        return out
    sc = to_statechart(spec)
    viol = []
    try:
        sc2 = import_from_yaml(export_to_yaml(sc))
        sc3 = import_from_yaml(export_to_yaml(sc2))
    except Exception as e:
        return {'violations': [V('export-does-not-reimport', exc=type(e).__name__,
                                 msg=str(e.__cause__ or e)[:300])], 'labels': labels, 'keys': []}
    s1 = sig(sc)
    for name, other in (('re-import', sc2), ('re-re-import', sc3)):
        d = first_diff(s1, sig(other))
        if d:
            d['variant'] = name
            viol.append({'prop': PROP, 'kind': 'reimport-behaves-differently',
                         'step': d['step_index'], 'detail': d})
            break
    fired = sum(1 for s in s1 if s['result'] for m in s['result']['micro'] if m['has_t'])
    keys = [sha(case)] if fired >= 3 else []
    return {'violations': viol, 'labels': labels, 'keys': keys,
            'sample': {'kind': 'behaviour', 'n_states': len(spec['states']),
                       'transitions_fired': fired}}


def oracle(case):
    prelude.run_prelude(case.get('prelude'))
    if case['kind'] == 'behaviour':
        return oracle_b(case)
    return oracle_a(case)
