"""C17 Renaming and copying states preserves behaviour."""
import copy

from hypothesis import strategies as st

from .. import gen, probes
from ..run import Drive
from ..spec import Tree, to_statechart

PROP = 'C17'
LEVEL = 'exploration'
BUDGET = {'quick': 9600, 'thorough': 128000}
RULE = ('cases = (rename) well-formed instrumented chart whose names are fixed-width tokens + '
        'input history + a subset of states renamed tok -> tok+"x" (order preserving) with '
        'rename_state in a random order: the run of the renamed chart must equal the original run '
        'with the names substituted (configurations, exit/entry lists, internal flags of '
        'processed transitions, sent events, executed-code log whose probes use stable ids); '
        '(copy) a guest chart plugged into a host (compound root with a placeholder leaf) with '
        'copy_from_statechart(source=guest root, replace=slot, renaming_func): the host run must '
        'equal [host root entered] + the guest run mapped by the renaming function, step by '
        'step. Non-trivial = history fires an internal transition of a renamed state, exits a '
        'renamed child of an orthogonal state, or replaces a history state whose parent/memory '
        'was renamed (rename); guest run firing >=3 transitions (copy); distinct = sha1(case).')
ASSUMPTIONS = ['guest charts have no final states (a final child of the guest root ends the guest '
               'run but is an ordinary nested final state inside the host)']
MIX = (('sibling', 25), ('other', 15), ('orthin', 10), ('anc', 15), ('desc', 5), ('hist', 10),
       ('internal', 20))


def strategy(tier):
    big = tier == 'thorough'

    @st.composite
    def rename(draw):
        spec = draw(gen.charts(max_states=14 if big else 11, mix=MIX, p_sends=0.2, p_hist=0.5,
                               p_orth_root=0.35))
        ops = draw(gen.histories(spec, 8, 22, p_all=0.45))
        names = [s['name'] for s in spec['states']]
        subset = draw(st.lists(st.sampled_from(names), min_size=1, max_size=len(names),
                               unique=True))
        return {'kind': 'rename', 'spec': spec, 'ops': ops, 'rename': subset,
                'prerun': draw(st.booleans())}

    @st.composite
    def copy_(draw):
        spec = draw(gen.charts(max_states=10, mix=MIX, p_sends=0.2, p_hist=0.5, allow_final=False,
                               p_orth_root=0.35))
        ops = draw(gen.histories(spec, 8, 20, p_all=0.45))
        return {'kind': 'copy', 'spec': spec, 'ops': ops,
                'prefix': draw(st.sampled_from(['g_', 'zz', 'A']))}
    return st.one_of(rename(), rename(), copy_())


def run_sig(spec, sc, ops):
    d = Drive(spec, sc=sc)
    sig = []
    for op in ops:
        if op[0] == 'q':
            d.queue(op[1], delay=op[2], mode=op[3], uid=op[4])
        elif op[0] == 'adv':
            d.advance(op[1])
        else:
            rec = d.step(op[1])
            sig.append({'result': rec['result'], 'exc': rec['exc'], 'config': rec['config_after'],
                        'log': [list(x) for x in rec['log']], 'v': rec['v_after']})
    return sig


def map_sig(sig, f):
    out = copy.deepcopy(sig)
    for s in out:
        s['config'] = [f(n) for n in s['config']]
        if s['result']:
            for m in s['result']['micro']:
                m['exited'] = [f(n) for n in m['exited']]
                m['entered'] = [f(n) for n in m['entered']]
    return out


def first_diff(a, b):
    for i, (x, y) in enumerate(zip(a, b)):
        if x != y:
            keys = [k for k in x if x[k] != y[k]]
            return {'step_index': i, 'fields': keys, 'expected': {k: x[k] for k in keys},
                    'got': {k: y[k] for k in keys}}
    if len(a) != len(b):
        return {'step_index': min(len(a), len(b)), 'fields': ['length']}
    return None


def oracle_rename(case):
    from ..cli import sha
    spec = probes.instrument(case['spec'])
    tree = Tree(spec)
    sc = to_statechart(spec)
    if case.get('prerun'):
        # the very Statechart object that is renamed afterwards has been executed before
        ref = run_sig(spec, sc, case['ops'])
    else:
        ref = run_sig(spec, to_statechart(spec), case['ops'])
    # the renaming must be injective and keep the string order of ALL names (the documented
    # semantics uses that order): n -> n + 'x' does so unless n is a prefix of another name
    # ('s' < 's0' but 'sx' > 's0'); such names are left alone
    all_names = [x['name'] for x in spec['states']]
    ren = {}
    skipped = 0
    for n in case['rename']:
        trial = dict(ren)
        trial[n] = n + 'x'
        img = [trial.get(a, a) for a in all_names]
        ok = len(set(img)) == len(img) and all(
            (a < b) == (trial.get(a, a) < trial.get(b, b)) for a in all_names for b in all_names)
        if ok:
            ren = trial
        else:
            skipped += 1
    viol, labels = [], {'rename cases': 1}
    if skipped:
        labels['renamings left out (would change the order of names)'] = skipped
    if case.get('prerun'):
        labels['rename after the statechart was executed'] = 1
    try:
        for n in case['rename']:
            if n in ren:
                sc.rename_state(n, ren[n])
    except Exception as e:
        return {'violations': [{'prop': PROP, 'kind': 'rename-raised', 'step': None,
                                'detail': {'exc': type(e).__name__, 'msg': str(e)[:200]}}],
                'labels': labels, 'keys': []}
    f = lambda n: ren.get(n, n)  # noqa: E731
    try:
        got = run_sig(spec, sc, case['ops'])
    except Exception as e:
        return {'violations': [{'prop': PROP, 'kind': 'renamed-chart-cannot-run', 'step': None,
                                'detail': {'exc': type(e).__name__, 'msg': str(e)[:200]}}],
                'labels': labels, 'keys': []}
    d = first_diff(map_sig(ref, f), got)
    if d:
        d['renamed'] = case['rename']
        viol.append({'prop': PROP, 'kind': 'renaming-changes-run', 'step': d['step_index'],
                     'detail': d})
    # non-triviality
    by_tid = {t['id']: t for t in spec['transitions']}
    nontrivial = False
    for s in ref:
        if not s['result']:
            continue
        for m in s['result']['micro']:
            if m['has_t'] and by_tid[m['t']].get('target') is None and \
                    by_tid[m['t']]['source'] in ren:
                nontrivial = True
                labels['internal transition of a renamed state fired'] = 1
            for x in m['exited']:
                p = tree.parent[x]
                if x in ren and p is not None and tree.kind[p] == 'orthogonal':
                    nontrivial = True
                    labels['renamed child of an orthogonal state exited'] = 1
                if tree.kind[x] in ('shallow', 'deep') and (
                        x in ren or tree.states[x]['memory'] in ren or p in ren):
                    nontrivial = True
                    labels['history with renamed parent/memory replaced'] = 1
    keys = [sha(case)] if nontrivial else []
    return {'violations': viol, 'labels': labels, 'keys': keys,
            'sample': {'kind': 'rename', 'renamed': case['rename'],
                       'states': [s['name'] + ':' + s['kind'] for s in case['spec']['states']]}}


def oracle_copy(case):
    from ..cli import sha
    from sismic.model import Statechart, CompoundState, BasicState
    spec = probes.instrument(case['spec'])
    tree = Tree(spec)
    guest = to_statechart(spec)
    ref = run_sig(spec, to_statechart(spec), case['ops'])
    from ..spec import from_statechart
    host = Statechart('host')
    host.add_state(CompoundState('host', initial='slot'), None)
    host.add_state(BasicState('slot'), 'host')
    host.add_state(BasicState('slot2'), 'host')
    pre = case['prefix']
    # copy_from_statechart renames the guest's states one at a time inside a copy of the guest
    # (documented in its source): a new name must not be the current name of another guest
    # state.  Prefixes that would produce such a name are replaced.
    gnames = set(x['name'] for x in spec['states'])
    for cand in (pre, 'g_', 'zz', 'q#', 'copy of '):
        if not any((cand + n) in gnames or (cand + '2' + n) in gnames for n in gnames):
            pre = cand
            break
    labels = {'copy cases': 1}
    guest_before = from_statechart(guest)
    try:
        host.copy_from_statechart(guest, source=guest.root, replace='slot',
                                  renaming_func=lambda n: pre + n)
        # the same guest plugged into a second (never entered) slot
        host.copy_from_statechart(guest, source=guest.root, replace='slot2',
                                  renaming_func=lambda n: pre + '2' + n)
    except Exception as e:
        return {'violations': [{'prop': PROP, 'kind': 'copy-raised', 'step': None,
                                'detail': {'exc': type(e).__name__, 'msg': str(e)[:200]}}],
                'labels': labels, 'keys': []}
    if from_statechart(guest) != guest_before:
        return {'violations': [{'prop': PROP, 'kind': 'copy-changed-the-guest', 'step': None,
                                'detail': {}}], 'labels': labels, 'keys': []}
    f = lambda n: 'slot' if n == tree.root else pre + n  # noqa: E731
    want = map_sig(ref, f)
    for s in want:
        if s['config']:
            s['config'] = ['host'] + s['config']
    if want and want[0]['result']:
        want[0]['result']['micro'].insert(0, {
            't': None, 'has_t': False, 'internal': None, 'exited': [], 'entered': ['host'],
            'sent': [], 'event': None})
    try:
        got = run_sig(spec, host, case['ops'])
    except Exception as e:
        return {'violations': [{'prop': PROP, 'kind': 'host-cannot-run', 'step': None,
                                'detail': {'exc': type(e).__name__, 'msg': str(e)[:200]}}],
                'labels': labels, 'keys': []}
    viol = []
    d = first_diff(want, got)
    if d:
        viol.append({'prop': PROP, 'kind': 'copied-subchart-behaves-differently',
                     'step': d['step_index'], 'detail': d})
    # the guest plugged in under its own names (placeholder named like the guest's root, default
    # renaming): host and guest are independent objects - editing the host leaves the guest alone
    R = tree.root
    others = [x['name'] for x in spec['states'] if x['name'] != R]
    if not viol and others and 'host' not in gnames:
        guest2 = to_statechart(spec)
        before2 = from_statechart(guest2)
        try:
            host2 = Statechart('host2')
            host2.add_state(CompoundState('host', initial=R), None)
            host2.add_state(BasicState(R), 'host')
            host2.copy_from_statechart(guest2, source=R, replace=R)
            X = others[len(others) // 2]
            host2.rename_state(X, X + '~')
            labels['copies under the same names, host edited afterwards'] = 1
            changed = from_statechart(guest2) != before2
            d2 = None if changed else first_diff(ref, run_sig(spec, guest2, case['ops']))
        except Exception as e:
            changed, d2 = True, {'exc': type(e).__name__, 'msg': str(e)[:200]}
        if changed or d2:
            viol.append({'prop': PROP, 'kind': 'editing-the-host-changed-the-guest', 'step': None,
                         'detail': d2 or {'renamed_in_host': X}})
    # a partial copy: a sub-tree of the guest that no transition enters or leaves is plugged into
    # a host whose root has the same name as the guest's root; exactly the sub-tree's own
    # transitions arrive in the host
    if not viol and 'slot' not in gnames:
        for cand in spec['states']:
            S = cand['name']
            if S == R or cand['kind'] in ('shallow', 'deep', 'final'):
                continue
            sub = tree.desc_or_self(S)
            closed = all((t['source'] in sub) == ((t.get('target') or t['source']) in sub)
                         for t in spec['transitions'])
            inner = [t for t in spec['transitions'] if t['source'] in sub]
            outer = [t for t in spec['transitions'] if t['source'] not in sub]
            if not closed or not outer:
                continue
            guest3 = to_statechart(spec)
            host3 = Statechart('host3')
            host3.add_state(CompoundState(R, initial='slot'), None)
            host3.add_state(BasicState('slot'), R)
            labels['partial copies into a host sharing the root name'] = 1
            try:
                host3.copy_from_statechart(guest3, source=S, replace='slot',
                                           renaming_func=lambda n: pre + n)
            except Exception as e:
                viol.append({'prop': PROP, 'kind': 'copy-raised', 'step': None,
                             'detail': {'exc': type(e).__name__, 'msg': str(e)[:200],
                                        'partial_source': S}})
                break
            g = lambda n: 'slot' if n == S else pre + n  # noqa: E731
            want_t = sorted(repr([g(t['source']), None if t.get('target') is None
                                  else g(t['target']), t.get('event')]) for t in inner)
            got_t = sorted(repr([t.source, t.target, t.event]) for t in host3.transitions)
            if want_t != got_t:
                viol.append({'prop': PROP, 'kind': 'partial-copy-transitions-differ', 'step': None,
                             'detail': {'partial_source': S,
                                        'unexpected': [x for x in got_t if x not in want_t][:4],
                                        'missing': [x for x in want_t if x not in got_t][:4]}})
            break
    fired = sum(1 for s in ref if s['result'] for m in s['result']['micro'] if m['has_t'])
    keys = [sha(case)] if fired >= 3 else []
    return {'violations': viol, 'labels': labels, 'keys': keys,
            'sample': {'kind': 'copy', 'prefix': pre, 'transitions_fired': fired,
                       'states': [s['name'] + ':' + s['kind'] for s in case['spec']['states']]}}


def oracle(case):
    if case['kind'] == 'copy':
        return oracle_copy(case)
    return oracle_rename(case)
