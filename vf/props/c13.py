"""C13 Time is frozen per step; after() and idle() mean what they say."""
from hypothesis import strategies as st

from .. import gen, probes
from .. import refmodel as R
from ..run import Drive
from ..spec import Tree

PROP = 'C13'
LEVEL = 'exploration'
BUDGET = {'quick': 12800, 'thorough': 192000}
DS = [0, 0.25, 1, 2, 5]
DTS = [0.25, 0.5, 0.75, 1, 1.25, 1.75, 2, 2.25, 4.75, 5, 5.25]
RULE = ('cases = well-formed chart whose guards are after(d)/idle(d) probes (d in {0,1/4,1,2,5}), '
        'with internal transitions, self-loops and re-entry, state invariants and transition '
        'postconditions probing after/idle, fragments that log `time` and move the clock during '
        'the step (tick) + history interleaving clock advances (hitting d, d-1/4, d+1/4) with '
        'events and steps, sometimes at clock values around 2**30; in 30% of the cases one step is cut short by entry code that raises '
        '(the states entered before it count as entered at that time). The model keeps entered_at / fired_at per state from the returned '
        'steps: every probe evaluation must equal T-entered_at>=d resp. T-fired_at>=d; '
        'MacroStep.time, the time seen by all code, the step-started meta-event and '
        'interpreter.time equal the clock sampled right before execute_once; the transitions '
        'fired follow the C01 rule with those guard values. Non-trivial = a probe evaluated with '
        'T-entered_at == d exactly, or after a re-entry, or in a step with a mid-step clock move; '
        'distinct = sha1(chart, history).')
ASSUMPTIONS = ['all times are dyadic rationals so float arithmetic is exact',
               'idle() is not probed inside transition contracts (ambiguous moment)']
MIX = (('sibling', 35), ('other', 10), ('orthin', 5), ('anc', 20), ('desc', 5), ('hist', 5),
       ('internal', 20))


def strategy(tier):
    big = tier == 'thorough'

    @st.composite
    def cases(draw):
        spec = draw(gen.charts(max_states=12 if big else 9, mix=MIX, max_tr=10, p_eventless=0.45,
                               n_events=2, p_sends=0.1, root_final=0.1))
        for t in spec['transitions']:
            if draw(st.floats(0, 1)) < 0.8:
                t['tguard'] = [draw(st.sampled_from(['after', 'idle'])), draw(st.sampled_from(DS))]
                t['plain'] = draw(st.floats(0, 1)) < 0.35
            if draw(st.floats(0, 1)) < 0.3:
                t['tpost'] = draw(st.sampled_from(DS))
            if draw(st.floats(0, 1)) < 0.2:
                t['tinv'] = draw(st.sampled_from(DS))
            if draw(st.floats(0, 1)) < 0.2:
                t['extra'] = ['tick(%r)' % draw(st.sampled_from([0.25, 1]))]
        for s in spec['states']:
            if draw(st.floats(0, 1)) < 0.3:
                s['sinv'] = draw(st.sampled_from(DS))
            if draw(st.floats(0, 1)) < 0.15:
                s['extra_entry'] = ['tick(%r)' % draw(st.sampled_from([0.25, 1]))]
        ops = [['step']]
        for _ in range(draw(st.integers(6, 22))):
            k = draw(st.sampled_from(['q', 'adv', 'adv', 'step', 'step', 'step']))
            if k == 'q':
                d = draw(st.sampled_from([None, None, 0.25, 1]))
                ops.append(['q', draw(st.sampled_from(['e0', 'e1'])), d, 'str', 'x%d' % len(ops)])
            elif k == 'adv':
                ops.append(['adv', draw(st.sampled_from(DTS))])
            else:
                ops.append(['step'])
        ops.append(['step'])
        if draw(st.integers(0, 5)) == 0:
            # epoch-like clock values (2**30 + small dyadic fractions: still exact): before the
            # initial step, or right after it
            ops.insert(draw(st.sampled_from([0, 1])), ['adv', 2.0 ** 30])
        # shadow: a second interpreter over the same Statechart object is stepped in between, on
        # its own clock; it must not influence the first one
        # faults: in the given step the k-th entry code executed raises at its end (the states
        # entered before it in that micro step are active and were entered at that time)
        faults = []
        steps = [i for i, o in enumerate(ops) if o[0] == 'step'][1:]
        if steps and draw(st.floats(0, 1)) < 0.3:
            faults = [[draw(st.sampled_from(steps)), draw(st.sampled_from([1, 2, 2, 3]))]]
        return {'spec': spec, 'ops': ops, 'shadow': draw(st.booleans()), 'faults': faults}
    return cases()


def render(spec):
    spec = probes.instrument(spec, guards='time')
    for t in spec['transitions']:
        # plain time guards: several transitions then carry textually identical guards whose
        # values differ because after()/idle() are relative to each source state
        if t.get('tguard') and t.get('plain'):
            t['guard'] = '%s(%r)' % (t['tguard'][0], t['tguard'][1])
    for t in spec['transitions']:
        if t.get('tpost') is not None:
            d = t['tpost']
            t['post'] = ["(glog.append(('tp', %d, %r, after(%r), None, time)) or True)"
                         % (t['id'], d, d)]
        if t.get('tinv') is not None:
            d = t['tinv']
            t['inv'] = ["(glog.append(('ti', %d, %r, after(%r), None, time)) or True)"
                        % (t['id'], d, d)]
    for s in spec['states']:
        if s.get('sinv') is not None and s['kind'] not in ('shallow', 'deep'):
            d = s['sinv']
            s['inv'] = ["(glog.append(('si', %d, %r, after(%r), idle(%r), time)) or True)"
                        % (s['sid'], d, d, d)]
    return spec


BOOM = ("\nfv['n'] = fv.get('n', 0) + 1\nif fv.get('eboom') == fv['n']:\n"
        "    raise ValueError('boom')")


def oracle(case):
    from ..cli import sha
    spec = render(case['spec'])
    faults = {int(i): k for i, k in case.get('faults') or []}
    if faults:
        for s_ in spec['states']:
            if s_['kind'] not in ('shallow', 'deep'):
                s_['on_entry'] = (s_.get('on_entry') or 'pass') + BOOM
    after_fault = False
    tree = Tree(spec)
    by_tid = {t['id']: t for t in spec['transitions']}
    by_sid = {s['sid']: s for s in spec['states']}
    viol, labels, keys = [], {}, []
    box = {}
    d = Drive(spec, ignore_contract=False, ctx_extra={'tick': lambda dt: box['d'].advance(dt)})
    box['d'] = d
    started = []
    d.interp.attach(lambda ev: started.append(ev.time) if ev.name == 'step started' else None)
    shadow = None
    if case.get('shadow'):
        from sismic.interpreter import Interpreter
        shadow = Interpreter(d.sc, ignore_contract=False,
                             initial_context=probes.new_context({'tick': lambda dt: None}))
        labels['runs with a shadow interpreter on the same statechart'] = 1

    def shadow_step(k):
        if shadow is None:
            return
        try:
            shadow.clock.time += 0.375
            if k % 2 == 0:
                shadow.queue('e%d' % (k % 4 // 2))
            shadow.execute_once()
        except Exception:
            pass     # (non-determinism etc. in the shadow run is irrelevant here)
    entered_at, fired_at = {}, {}
    reentered = set()
    nontrivial = False
    last_T = d.interp.time

    def bad(kind, i, **detail):
        viol.append({'prop': PROP, 'kind': kind, 'step': i, 'detail': detail})

    for i, op in enumerate(case['ops']):
        if op[0] == 'q':
            d.queue(op[1], delay=op[2], mode=op[3], uid=op[4])
            if d.interp.time != last_T:
                bad('interpreter-time-moved-between-steps', i, time=d.interp.time, last=last_T,
                    by='queue')
                break
        elif op[0] == 'adv':
            d.advance(op[1])
            if d.interp.time != last_T:
                bad('interpreter-time-moved-between-steps', i, time=d.interp.time, last=last_T)
                break
        else:
            shadow_step(i)
            T = d.interp.clock.time
            C = set(d.interp.configuration)
            E = d.qm.head(T)
            n0 = len(started)
            # guard values predicted by the model, before the step
            gv = {}
            for t in spec['transitions']:
                g = t.get('tguard')
                if g is None or t['source'] not in C:
                    gv[t['id']] = True
                    continue
                base = entered_at if g[0] == 'after' else fired_at
                gv[t['id']] = (T - base[t['source']]) >= g[1]
            d.ctx['fv'].clear()
            if i in faults:
                d.ctx['fv']['eboom'] = faults[i]
            rec = d.step(None)
            d.ctx['fv'].clear()
            labels['steps'] = labels.get('steps', 0) + 1
            if i in faults and rec['exc'] == 'CodeEvaluationError' \
                    and 'boom' in str(rec['exc_obj']):
                # the step was cut short inside an entry: what was executed (log) tells which
                # states were entered / fired at T; queues are taken over from the interpreter
                labels['fault steps (entry code raised)'] = labels.get(
                    'fault steps (entry code raised)', 0) + 1
                after_fault = True
                if d.interp.time != T or any(x[3] != T for x in rec['log']):
                    bad('interpreter-time-not-sampled-at-call', i, time=d.interp.time,
                        clock_at_call=T)
                    break
                last_T = T
                ens = [x for x in rec['log'] if x[0] == 'en']
                for x in rec['log']:
                    if x[0] == 'tr':
                        fired_at[by_tid[x[1]]['source']] = T
                    elif x[0] == 'en' and x is not ens[-1]:
                        nm = by_sid[x[1]]['name']
                        if nm in entered_at:
                            reentered.add(nm)
                        entered_at[nm] = T
                        fired_at[nm] = T
                from ..core import resync
                resync(d, {}, {})
                continue
            if rec['exc'] and rec['exc'] not in ('NonDeterminismError',
                                                 'ConflictingTransitionsError'):
                if after_fault:
                    # the configuration a cut-short step leaves behind may be one the
                    # interpreter cannot continue from: nothing is claimed about that
                    labels['runs abandoned after a fault step'] = 1
                    break
                bad('unexpected-exception', i, exc=rec['exc'], msg=str(rec['exc_obj'])[:300])
                break
            # frozen time
            moved = d.interp.clock.time != T
            if moved:
                labels['steps with a mid-step clock move'] = labels.get(
                    'steps with a mid-step clock move', 0) + 1
            if d.interp.time != T:
                bad('interpreter-time-not-sampled-at-call', i, time=d.interp.time, clock_at_call=T)
                break
            if started[n0:] != [T]:
                bad('step-started-time', i, seen=started[n0:], clock_at_call=T)
                break
            if rec['result'] is not None and rec['result']['time'] != T:
                bad('macrostep-time', i, time=rec['result']['time'], clock_at_call=T)
                break
            for x in rec['log']:
                if x[3] != T:
                    bad('code-saw-other-time', i, record=list(x), clock_at_call=T)
                    break
            if viol:
                break
            last_T = T
            # guard probes (start of step)
            for g in rec['glog']:
                if g[0] in ('tp', 'si', 'ti'):
                    continue
                t = by_tid[g[0]]
                s = t['source']
                want_after = (T - entered_at[s]) >= g[2]
                want_idle = (T - fired_at[s]) >= g[2]
                if g[5] != T:
                    bad('guard-saw-other-time', i, record=list(g), clock_at_call=T)
                elif g[3] != want_after:
                    bad('after-wrong', i, where='guard', tid=g[0], d=g[2], value=g[3], now=T,
                        entered_at=entered_at[s])
                elif g[4] != want_idle:
                    bad('idle-wrong', i, where='guard', tid=g[0], d=g[2], value=g[4], now=T,
                        fired_at=fired_at[s], entered_at=entered_at[s])
                if (T - entered_at[s]) == g[2] or s in reentered or moved:
                    nontrivial = True
                if (T - entered_at[s]) == g[2] and g[2] > 0:
                    labels['probe exactly at the boundary'] = labels.get(
                        'probe exactly at the boundary', 0) + 1
            if viol:
                break
            if not rec['started_before']:
                fired = []
            else:
                sel = R.select(tree, spec, C, E['name'] if E else None, gv)
                fired = sel['fired']
                adm = R.classify(tree, fired) if len(fired) >= 2 else {'ok'}
                if rec['exc']:
                    if not any({'nondet': 'NonDeterminismError',
                                'conflict': 'ConflictingTransitionsError'}.get(a) == rec['exc']
                               for a in adm):
                        bad('spurious-error', i, exc=rec['exc'], fired=[t['id'] for t in fired])
                        break
                    continue
                if 'ok' not in adm:
                    bad('missing-error', i, fired=[t['id'] for t in fired])
                    break
                got = sorted(m['t'] for m in rec['result']['micro'] if m['has_t']) \
                    if rec['result'] else []
                if got != sorted(t['id'] for t in fired):
                    bad('time-guarded-selection', i, fired=got,
                        expected=sorted(t['id'] for t in fired), now=T,
                        guards={t['id']: [t.get('tguard'), gv[t['id']]] for t in
                                spec['transitions'] if t['source'] in C})
                    break
                if E is not None and not (fired and sel['eventless']):
                    d.qm.pop(E)
            # model update from the returned step; transition postcondition probes in between
            tp = [g for g in rec['glog'] if g[0] == 'tp']
            if rec['result']:
                for m in rec['result']['micro']:
                    if m['has_t']:
                        t = by_tid[m['t']]
                        if t.get('tinv') is not None:
                            # transition invariants: evaluated before and after the action
                            mine = [g for g in rec['glog'] if g[0] == 'ti' and g[1] == t['id']]
                            want = (T - entered_at[t['source']]) >= t['tinv']
                            if len(mine) != 2 or any(g[3] != want or g[5] != T for g in mine):
                                bad('after-wrong', i, where='transition invariant', tid=t['id'],
                                    d=t['tinv'], evaluations=[list(g) for g in mine], now=T,
                                    entered_at=entered_at[t['source']], expected=want)
                                break
                        if t.get('tpost') is not None:
                            if not tp:
                                bad('transition-postcondition-not-evaluated', i, tid=t['id'])
                                break
                            g = tp.pop(0)
                            want = (T - entered_at[t['source']]) >= g[2]
                            if g[1] != t['id'] or g[3] != want or g[5] != T:
                                bad('after-wrong', i, where='transition postcondition',
                                    tid=t['id'], d=g[2], value=g[3], now=T, time_seen=g[5],
                                    entered_at=entered_at[t['source']])
                                break
                        fired_at[t['source']] = T
                    for s in m['entered']:
                        if s in entered_at:
                            reentered.add(s)
                            labels['re-entries'] = labels.get('re-entries', 0) + 1
                        entered_at[s] = T
                        fired_at[s] = T
                from ..run import sends_from_log
                for e in sends_from_log(d.by, rec['log']):
                    if e['cls'] == 'InternalEvent':
                        d.qm.push('int', T + e['data'].get('delay', 0), e['data']['uid'],
                                  e['name'])
            if viol:
                break
            # state invariant probes (end of step)
            si = [g for g in rec['glog'] if g[0] == 'si']
            want_states = sorted(by_sid[g[1]]['name'] for g in si)
            have = sorted(s for s in rec['config_after'] if tree.states[s].get('sinv') is not None
                          and tree.kind[s] not in ('shallow', 'deep'))
            if want_states != have:
                bad('state-invariants-evaluated', i, evaluated=want_states, active=have)
                break
            for g in si:
                s = by_sid[g[1]]['name']
                want_after = (T - entered_at[s]) >= g[2]
                want_idle = (T - fired_at[s]) >= g[2]
                if g[5] != T or g[3] != want_after:
                    bad('after-wrong', i, where='state invariant', state=s, d=g[2], value=g[3],
                        now=T, time_seen=g[5], entered_at=entered_at[s])
                    break
                if g[4] != want_idle:
                    bad('idle-wrong', i, where='state invariant', state=s, d=g[2], value=g[4],
                        now=T, fired_at=fired_at[s], entered_at=entered_at[s])
                    break
                if (T - entered_at[s]) == g[2] or s in reentered or moved:
                    nontrivial = True
            if viol:
                break
    if nontrivial:
        keys.append(sha([case['spec'], case['ops']]))
    return {'violations': viol, 'labels': labels, 'keys': keys,
            'sample': {'transitions': ['%d:%s-%s->%s guard=%s' % (
                t['id'], t['source'], t.get('event') or '', t.get('target'), t.get('tguard'))
                for t in case['spec']['transitions']], 'ops': case['ops'][:14]}}
