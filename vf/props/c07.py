"""C07 Execution is deterministic and independent of declaration order."""
import json
import os
import subprocess
import sys
import tempfile

from hypothesis import strategies as st

from .. import gen, probes
from ..run import Drive
from ..spec import Tree, reorder, to_statechart, to_yaml_text

PROP = 'C07'
LEVEL = 'exploration'
BUDGET = {'quick': 2400, 'thorough': 48000}
XPROC_PER_WORKER = {'quick': 24, 'thorough': 300}
HASHSEEDS = ['0', '1', '2', 'random', 'random']
RULE = ('cases = well-formed instrumented chart + input history + a second random declaration '
        'order (permutation of every children list and of the transition list). The chart is '
        'realised three ways - API calls in order A, API calls in order B, YAML text in order B - '
        'and the three runs must have equal signatures step by step (consumed event, transition '
        'ids, exit/entry lists, sent events, executed-code log, counter v) or raise the same '
        'exception class at the same step (a quarter of the cases run with contracts on and some '
        'conditions false: the object and condition of the ContractError belong to the signature); '
        'the same case is run twice in-process; a batch of '
        'cases is re-executed in 5 sub-processes with PYTHONHASHSEED in {0,1,2,random,random} '
        'and the SHA-1 of the run signature must agree. Non-trivial = the orders differ on the '
        'children list of an orthogonal state exited during the run, or on two transitions fired '
        'in one step; distinct = sha1(chart, order B, history).')
ASSUMPTIONS = ['PYTHONHASHSEED quantifier reduced to 5 seeds per batch',
               'guards are table look-ups']
MIX = (('sibling', 20), ('other', 20), ('orthin', 20), ('anc', 20), ('desc', 5), ('hist', 5),
       ('internal', 10))
HIST_MIX = (('sibling', 25), ('other', 15), ('orthin', 5), ('anc', 15), ('desc', 5), ('hist', 30),
            ('internal', 5))

_BATCH = []


def strategy(tier):
    big = tier == 'thorough'

    @st.composite
    def cases(draw):
        spec = draw(gen.charts(max_states=16 if big else 12, mix=MIX, p_sends=0.3, p_notify=0.05,
                               p_orth_root=0.45, dup_tr=0.05))
        ops = draw(gen.histories(spec, 6, 20, p_all=0.45, advances=True, delays=True))
        n = len(spec['states'])
        keys = draw(st.lists(st.integers(0, 1000), min_size=n, max_size=n, unique=True))
        perm = draw(st.permutations(list(range(len(spec['transitions'])))))
        return {'spec': spec, 'ops': ops,
                'keysB': {s['name']: k for s, k in zip(spec['states'], keys)},
                'permB': list(perm)}

    @st.composite
    def histories_over_orthogonal(draw):
        # deep/shallow history over orthogonal content: what is restored comes out of sets
        spec = draw(gen.charts(max_states=16 if big else 13, mix=HIST_MIX, p_hist=0.8,
                               force_history=True, p_orth_root=0.2, orth_weight=5,
                               allow_final=False, n_events=2, min_tr=6, max_tr=14,
                               p_eventless=0.05, p_sends=0.3))
        ops = draw(gen.histories(spec, 8, 24, n_events=2, p_all=0.5, p_none=0.05))
        n = len(spec['states'])
        keys = draw(st.lists(st.integers(0, 1000), min_size=n, max_size=n, unique=True))
        perm = draw(st.permutations(list(range(len(spec['transitions'])))))
        return {'spec': spec, 'ops': ops,
                'keysB': {s['name']: k for s, k in zip(spec['states'], keys)},
                'permB': list(perm)}
    @st.composite
    def with_failing_contracts(draw):
        # contracts on, several conditions false: which ContractError ends a step (class, object,
        # condition) belongs to the run
        spec = draw(gen.charts(max_states=16 if big else 12, mix=MIX, p_sends=0.2,
                               p_orth_root=0.5, orth_weight=4))
        spec = draw(gen.with_contracts(spec, p=0.7))
        ops = draw(gen.histories(spec, 5, 14, p_all=0.5))
        ncond = sum(len(o.get('c_' + k) or []) for o in spec['states'] + spec['transitions']
                    for k in ('pre', 'post', 'inv'))
        false = draw(st.lists(st.integers(1, max(1, ncond)), max_size=8, unique=True))
        n = len(spec['states'])
        keys = draw(st.lists(st.integers(0, 1000), min_size=n, max_size=n, unique=True))
        perm = draw(st.permutations(list(range(len(spec['transitions'])))))
        return {'spec': spec, 'ops': ops,
                'keysB': {s['name']: k for s, k in zip(spec['states'], keys)},
                'permB': list(perm), 'contracts': True, 'cv_false': false}
    @st.composite
    def competing(draw):
        # dense competition (few event names, several transitions per source, orthogonal roots):
        # many steps are rejected, and WHICH error is raised must not depend on the order either
        spec = draw(gen.charts(max_states=14 if big else 11, mix=MIX, n_events=2, min_tr=8,
                               max_tr=16, p_orth_root=0.5, orth_weight=4, p_eventless=0.1,
                               dup_tr=0.3))
        ops = draw(gen.histories(spec, 5, 14, n_events=2, p_all=0.6, p_none=0.05))
        n = len(spec['states'])
        keys = draw(st.lists(st.integers(0, 1000), min_size=n, max_size=n, unique=True))
        perm = draw(st.permutations(list(range(len(spec['transitions'])))))
        return {'spec': spec, 'ops': ops,
                'keysB': {s['name']: k for s, k in zip(spec['states'], keys)},
                'permB': list(perm)}
    return st.one_of(cases(), cases(), histories_over_orthogonal(), with_failing_contracts(),
                     competing())


def run_sig(spec, sc, ops, contracts=False, cv_false=()):
    """list of per-step signatures of one run"""
    d = Drive(spec, sc=sc, ignore_contract=not contracts)
    if contracts:
        ncond = sum(len(o.get('c_' + k) or []) for o in spec['states'] + spec['transitions']
                    for k in ('pre', 'post', 'inv'))
        d.ctx['cv'].update({c: c not in cv_false for c in range(1, ncond + 1)})
    sig = []
    for op in ops:
        if op[0] == 'q':
            d.queue(op[1], delay=op[2], mode=op[3], uid=op[4])
        elif op[0] == 'adv':
            d.advance(op[1])
        else:
            rec = d.step(op[1])
            sig.append({'result': rec['result'], 'exc': rec['exc'],
                        'config': rec['config_after'], 'log': [list(x) for x in rec['log']],
                        'v': rec['v_after']})
            e = rec['exc_obj']
            if contracts and e is not None:
                obj = getattr(e, 'obj', None)
                sig[-1]['error'] = [getattr(obj, 'name', None) or probes.tid_of(obj)
                                    if obj is not None else None,
                                    str(getattr(e, 'condition', ''))[:60]]
    return sig


def first_diff(a, b):
    for i, (x, y) in enumerate(zip(a, b)):
        if x != y:
            keys = [k for k in x if x[k] != y[k]]
            return {'step_index': i, 'fields': keys, 'a': {k: x[k] for k in keys},
                    'b': {k: y[k] for k in keys}}
    if len(a) != len(b):
        return {'step_index': min(len(a), len(b)), 'fields': ['length']}
    return None


def build_all(case):
    from sismic.io import import_from_yaml
    spec = probes.instrument(case['spec'], contracts=True if case.get('contracts') else None)
    specB = reorder(spec, case['keysB'], case['permB'])
    return spec, specB, {
        'apiA': lambda: to_statechart(spec),
        'apiB': lambda: to_statechart(specB),
        'yamlB': lambda: import_from_yaml(to_yaml_text(specB)),
    }


def signature_hash(case):
    from ..cli import sha
    spec, specB, builders = build_all(case)
    kw = {'contracts': bool(case.get('contracts')), 'cv_false': case.get('cv_false') or ()}
    return sha([run_sig(spec, builders[k](), case['ops'], **kw) for k in sorted(builders)])


def oracle(case):
    from ..cli import sha
    if case.get('xproc'):
        return xproc_oracle([case])
    spec, specB, builders = build_all(case)
    viol, labels, keys = [], {}, []
    kw = {'contracts': bool(case.get('contracts')), 'cv_false': case.get('cv_false') or ()}
    sigs = {k: run_sig(spec, b(), case['ops'], **kw) for k, b in builders.items()}
    # the second run re-uses the very Statechart object of the first one: executing a statechart
    # must not change it
    scA = builders['apiA']()
    sigs['apiA'] = run_sig(spec, scA, case['ops'], **kw)
    again = run_sig(spec, scA, case['ops'], **kw)
    d = first_diff(sigs['apiA'], again)
    if d:
        viol.append({'prop': PROP, 'kind': 'not-repeatable', 'step': d['step_index'], 'detail': d})
    for other in ('apiB', 'yamlB'):
        d = first_diff(sigs['apiA'], sigs[other])
        if d:
            d['variant'] = other
            viol.append({'prop': PROP, 'kind': 'declaration-order-dependence',
                         'step': d['step_index'], 'detail': d})
    # non-triviality
    t = Tree(spec)
    tB = Tree(specB)
    posA = {tr['id']: i for i, tr in enumerate(spec['transitions'])}
    posB = {tr['id']: i for i, tr in enumerate(specB['transitions'])}
    nontrivial = False
    for s in sigs['apiA']:
        if s['exc']:
            labels['step raising ' + s['exc']] = labels.get('step raising ' + s['exc'], 0) + 1
        if not s['result']:
            continue
        fired = [m['t'] for m in s['result']['micro'] if m['has_t']]
        for a in fired:
            for b in fired:
                if a != b and (posA[a] < posA[b]) != (posB[a] < posB[b]):
                    nontrivial = True
                    labels['step firing two transitions declared in different order'] = 1
        for m in s['result']['micro']:
            for x in m['exited']:
                if t.kind[x] == 'orthogonal' and t.children[x] != tB.children[x]:
                    nontrivial = True
                    labels['exit of an orthogonal state whose children order differs'] = 1
    if nontrivial:
        keys.append(sha([case['spec'], case['keysB'], case['permB'], case['ops']]))
    # cross-process batch: prefer runs that restored several states from a history memory or
    # entered several states in one stabilisation step (their order comes out of sets)
    multi = any(len(m['entered']) >= 2 and not m['has_t'] for s in sigs['apiA'] if s['result']
                for m in s['result']['micro'])
    if multi:
        labels['run with a multi-state default/history entry'] = 1
    if case.get('contracts'):
        labels['runs with contracts on and some conditions false'] = 1
        if any(s.get('error') for s in sigs['apiA']):
            labels['runs ended a step with a ContractError'] = 1
            multi = True      # which error is raised may come out of a set: send to the batch
    if not viol:
        if multi and len(_BATCH_HOT) < _BATCH_MAX[0]:
            _BATCH_HOT.append(case)
        elif len(_BATCH) < _BATCH_MAX[0]:
            _BATCH.append(case)
    return {'violations': viol, 'labels': labels, 'keys': keys,
            'sample': {'states': [s['name'] + ':' + s['kind'] for s in case['spec']['states']],
                       'orderB': case['keysB'], 'permB': case['permB'],
                       'n_ops': len(case['ops'])}}


_BATCH_MAX = [0]
_BATCH_HOT = []


def xproc_oracle(cases):
    """run the cases in sub-processes under several PYTHONHASHSEED values and compare hashes"""
    clean = [{k: v for k, v in c.items() if k != 'xproc'} for c in cases]
    here = os.path.dirname(os.path.dirname(os.path.dirname(os.path.abspath(__file__))))
    fd, path = tempfile.mkstemp(suffix='.json', prefix='c07batch')
    viol, labels = [], {}
    try:
        with os.fdopen(fd, 'w') as f:
            json.dump(clean, f)
        outs = []
        for hs in HASHSEEDS:
            env = dict(os.environ)
            env['PYTHONHASHSEED'] = hs
            p = subprocess.run([sys.executable, '-W', 'ignore', '-m', 'vf.props.c07', path],
                               cwd=here, env=env, capture_output=True, text=True, timeout=1800)
            if p.returncode != 0:
                raise RuntimeError('C07 sub-process failed: ' + p.stderr[-2000:])
            outs.append(json.loads(p.stdout.strip().splitlines()[-1]))
        local = [signature_hash(c) for c in clean]
        for i, c in enumerate(clean):
            hs = [o[i] for o in outs] + [local[i]]
            if len(set(hs)) != 1:
                cc = dict(c)
                cc['xproc'] = True
                viol.append({'prop': PROP, 'kind': 'hash-seed-dependence', 'step': None,
                             'detail': {'hashes': hs, 'hashseeds': HASHSEEDS + ['in-process']},
                             'case': cc})
        labels['cases re-executed under 5 PYTHONHASHSEED values'] = len(clean)
    finally:
        os.unlink(path)
    return {'violations': viol, 'labels': labels, 'keys': [], 'n': len(clean)}


def extra(tier, seed, widx):
    """cross-process tier, on the cases collected by this worker"""
    batch = (list(_BATCH_HOT) + list(_BATCH))[:_BATCH_MAX[0]]
    if not batch:
        return None
    r = xproc_oracle(batch)
    out = {'evaluations': r['n'] * len(HASHSEEDS), 'labels': r['labels']}
    if r['violations']:
        v = r['violations'][0]
        out['fail'] = {'case': v.pop('case'), 'violations': [v]}
    return out


def _prepare(tier):
    _BATCH_MAX[0] = XPROC_PER_WORKER[tier]


# the runner calls strategy(tier) first in every worker: remember the tier for the batch size
_orig_strategy = strategy


def strategy(tier):  # noqa: F811
    _prepare(tier)
    return _orig_strategy(tier)


if __name__ == '__main__':
    with open(sys.argv[1]) as f:
        batch = json.load(f)
    print(json.dumps([signature_hash(c) for c in batch]))
