"""C10 Property-statechart monitoring: complete, ordered, fail-fast, non-intrusive."""
from hypothesis import strategies as st

from .. import gen, probes
from ..run import Drive, ev_sig
from ..spec import to_statechart

PROP = 'C10'
LEVEL = 'fault_enumeration'
BUDGET = {'quick': 2200, 'thorough': 6400}
RULE = ('cases = monitored well-formed chart with logging probes, send (with delays) and notify + '
        'input history; a recording listener is attached first, then a recording property '
        'statechart (internal transition per meta-event name, action appends (name, time, '
        'attributes)). (1) per step the meta-events seen by both equal the sequence reconstructed '
        'from the returned MacroStep (step started, event consumed, per micro step state exited* '
        'transition processed state entered* then event sent / notify events, step ended) with '
        'the documented attributes and interleaved after the code they report; (2) every record '
        'of the property chart carries the step time; (3) fault enumeration: for the k-th '
        'meta-event (quick: <=10 sampled k; thorough: every k) a property chart turning final at '
        'its k-th event makes that execute_once raise PropertyStatechartError with the code log '
        'equal to the reference log truncated right after meta-event k; (3b) a property chart '
        'with a time-out (the J-th meta-event named X arms a delayed self-event of delay D; no '
        'eventless transitions) must fail exactly at the first meta-event whose step time has '
        'reached the due time, or never; (5) when the listener and the recording property chart '
        'are detached and replaced by fresh ones between two steps, the old ones hear nothing '
        'more and the new ones every meta-event from then on; (6) on a clock that advances at every '
        'read, "step started", MacroStep.time and the property clock all show interpreter.time; (4) never-final property '
        'charts leave the run signature equal to the unmonitored run; in 40% of the cases the '
        'monitored chart runs with contracts on and carries state invariants / transition post-'
        'conditions and invariants that record sent(x)/received(x), and those records belong to '
        'the signature. Non-trivial = k strictly '
        'inside a macro step that fires a transition; distinct = sha1(chart, history, k).')
ASSUMPTIONS = ["the deprecated 'delayed event sent' meta-event is ignored in (1) but counted in k",
               'steps rejected with NonDeterminism/ConflictingTransitionsError only need the '
               'listener and the property chart to agree']
MIX = (('sibling', 30), ('other', 15), ('orthin', 15), ('anc', 15), ('desc', 5), ('hist', 10),
       ('internal', 10))
META = ['step started', 'step ended', 'event consumed', 'event sent', 'state exited',
        'state entered', 'transition processed', 'delayed event sent', 'n0', 'n1']


def strategy(tier):
    big = tier == 'thorough'

    @st.composite
    def cases(draw):
        spec = draw(gen.charts(max_states=10, mix=MIX, p_sends=0.3, p_notify=0.2,
                               send_delays=True, max_tr=10))
        ops = draw(gen.histories(spec, 5, 14, p_all=0.4, p_none=0.1, advances=True, delays=True))
        for o in spec['states'] + spec['transitions']:
            # some fragments move the clock during the step (the property clock must not follow)
            if draw(st.floats(0, 1)) < 0.15:
                o['extra' if 'id' in o else 'extra_entry'] = ['tick(0.25)']
        ks = None if big else draw(st.lists(st.floats(0, 0.999), min_size=4, max_size=10))
        deadline = [draw(st.sampled_from(['step started', 'event consumed', 'state entered',
                                          'transition processed', 'step ended', 'event sent'])),
                    draw(st.integers(1, 3)), draw(st.sampled_from([0, 0.25, 1, 2]))]
        order = draw(st.sampled_from(['recorder-first', 'final-first']))
        # contracts of the monitored chart that read sent()/received() (evaluated, always true)
        sprobe = None
        if draw(st.floats(0, 1)) < 0.4:
            sprobe = {'states': [x['sid'] for x in spec['states'] if draw(st.floats(0, 1)) < 0.5],
                      'transitions': [t['id'] for t in spec['transitions']
                                      if draw(st.floats(0, 1)) < 0.4]}
        return {'spec': spec, 'ops': ops, 'ks': ks, 'order': order, 'sprobe': sprobe,
                'deadline': deadline, 'swap': draw(st.floats(0, 0.999)),
                'empty_event': draw(st.integers(0, 3)) == 0,
                'ticking': draw(st.integers(0, 2)) == 0}
    return cases()


def recorder_chart():
    """property statechart recording every meta-event it receives"""
    from sismic.model import Statechart, CompoundState, BasicState, Transition
    sc = Statechart('recorder')
    sc.add_state(CompoundState('r', initial='a'), None)
    sc.add_state(BasicState('a'), 'r')
    for n in META:
        sc.add_transition(Transition('a', None, event=n,
                                     action='plog.append((event.name, time, dict(event.data)))'))
    return sc


def final_at_k_chart():
    """property statechart that becomes final when it has received K meta-events"""
    from sismic.model import Statechart, CompoundState, BasicState, FinalState, Transition
    sc = Statechart('final at k')
    sc.add_state(CompoundState('r', initial='a'), None)
    sc.add_state(BasicState('a'), 'r')
    sc.add_state(FinalState('f'), 'r')
    for n in META:
        sc.add_transition(Transition('a', None, event=n, action='n = n + 1'))
    sc.add_transition(Transition('a', 'f', guard='n >= K'))
    return sc


def deadline_chart():
    """property statechart with a time-out: the J-th meta-event named X arms a delayed self-event
    (delay D); consuming it leads to the final state.  No eventless transition, transitions on X
    and on the self-event only."""
    from sismic.model import Statechart, CompoundState, BasicState, FinalState, Transition
    sc = Statechart('deadline')
    sc.add_state(CompoundState('r', initial='a'), None)
    sc.add_state(BasicState('a'), 'r')
    sc.add_state(BasicState('w'), 'r')
    sc.add_state(FinalState('f'), 'r')
    sc.add_transition(Transition('a', None, event='X', guard='n + 1 < J', action='n = n + 1'))
    sc.add_transition(Transition('a', 'w', event='X', guard='n + 1 >= J',
                                 action="send('deadline', delay=D)"))
    sc.add_transition(Transition('w', 'f', event='deadline'))
    return sc


def norm(v):
    from sismic.model import Event
    if isinstance(v, Event):
        return ev_sig(v)
    return v


def norm_data(d):
    return {k: norm(d[k]) for k in sorted(d)}


SPROBE = ("(slog.append((%r, %d, sent('e0'), sent('e1'), sent('e2'), sent('n0'), sent('n1'), "
          "received('e0'), received('e1'), received('e2'))) or True)")


def add_sprobes(spec, sprobe):
    """state invariants / transition post-conditions and invariants reading sent()/received()"""
    if not sprobe:
        return spec
    for x in spec['states']:
        if x['sid'] in sprobe['states']:
            x['inv'] = list(x.get('inv') or []) + [SPROBE % ('s', x['sid'])]
    for t in spec['transitions']:
        if t['id'] in sprobe['transitions']:
            t['post'] = list(t.get('post') or []) + [SPROBE % ('tp', t['id'])]
            t['inv'] = list(t.get('inv') or []) + [SPROBE % ('ti', t['id'])]
    return spec


def tick_clock():
    """a clock that advances by itself: every read of `time` is later than the one before"""
    from sismic.clock import Clock

    class TickClock(Clock):
        def __init__(self):
            self._t = 0.0
            self._n = 0

        @property
        def time(self):
            self._n += 1
            return self._t + self._n * 2.0 ** -12

        @time.setter
        def time(self, v):
            self._t = v - self._n * 2.0 ** -12
    return TickClock()


def run(spec, ops, monitor, k=None, order='recorder-first', contracts=False, deadline=None,
        swap_at=None, clock=None):
    """monitor: None (unmonitored) | 'record' | 'final'.  Returns dict."""
    from sismic.interpreter import Interpreter
    from sismic.exceptions import PropertyStatechartError
    box = {}
    slog = []
    d = Drive(spec, ignore_contract=not contracts, clock=clock,
              ctx_extra={'tick': lambda dt: box['d'].advance(dt), 'slog': slog})
    box['d'] = d
    heard, plog = [], []
    heard2, plog2 = [], []
    handles = {}
    if monitor:
        def listener(ev):
            heard.append((ev.name, norm_data(ev.data), len(d.ctx['log'])))
        d.interp.attach(listener)

        def listener2(ev):
            heard2.append((ev.name, norm_data(ev.data), len(d.ctx['log'])))

        def bind_rec(into=plog):
            handles['rec'] = d.interp.bind_property_statechart(
                recorder_chart(),
                interpreter_klass=lambda sc, clock: Interpreter(
                    sc, clock=clock, initial_context={'plog': into}))

        def bind_final():
            d.interp.bind_property_statechart(
                final_at_k_chart(),
                interpreter_klass=lambda sc, clock: Interpreter(
                    sc, clock=clock, initial_context={'n': 0, 'K': k}))
        if monitor == 'deadline':
            X, J, D = deadline
            dsc = deadline_chart()
            for t in dsc.transitions:
                if t.event == 'X':
                    t.event = X
            d.interp.bind_property_statechart(
                dsc, interpreter_klass=lambda sc, clock: Interpreter(
                    sc, clock=clock, initial_context={'n': 0, 'J': J, 'D': D}))
        elif monitor == 'final':
            if order == 'recorder-first':
                bind_rec()
                bind_final()
            else:
                bind_final()
                bind_rec()
        else:
            bind_rec()
    sig, marks = [], []
    raised = None
    for op in ops:
        if op[0] == 'step' and swap_at is not None and len(sig) == swap_at:
            # between two steps: the plain listener and the recording property chart are detached
            # and replaced by fresh ones (same number of listeners before and after)
            d.interp.detach(listener)
            d.interp.attach(listener2)
            d.interp.detach(handles['rec'])
            bind_rec(plog2)
        if op[0] == 'q':
            d.queue(op[1], delay=op[2], mode=op[3], uid=op[4])
        elif op[0] == 'adv':
            d.advance(op[1])
        else:
            h0, p0, s0 = len(heard), len(plog), len(slog)
            rec = d.step(op[1])
            marks.append((h0, len(heard), p0, len(plog)))
            rec['_time_after'] = d.interp.time
            sig.append({'result': rec['result'], 'exc': rec['exc'], 'config': rec['config_after'],
                        'step_time': d.interp.time,
                        'log': [list(x) for x in rec['log']], 'v': rec['v_after'],
                        'T': rec['T'], 'sent_received_probes': [list(x) for x in slog[s0:]]})
            if rec['exc'] and rec['exc'] not in ('NonDeterminismError',
                                                 'ConflictingTransitionsError'):
                raised = rec
                break
    return {'sig': sig, 'heard': heard, 'plog': plog, 'marks': marks, 'raised': raised,
            'heard2': heard2, 'plog2': plog2,
            'log': [list(x) for x in d.ctx['log']], 'drive': d}


def expected_meta(step, T, nlog0):
    """[(name, data, code records executed so far)] reconstructed from a returned step"""
    out = [('step started', {'time': T}, nlog0)]
    res = step['result']
    n = nlog0
    if res is None:
        out.append(('step ended', {}, n))
        return out
    if res['event'] is not None:
        out.append(('event consumed', {'event': res['event']}, n))
    for m in res['micro']:
        for s in m['exited']:
            n += 1
            out.append(('state exited', {'state': s}, n))
        if m['has_t']:
            n += 1
            out.append(('transition processed', m['_meta_t'], n))
        for s in m['entered']:
            n += 1
            out.append(('state entered', {'state': s}, n))
        for e in m['sent']:
            if e['cls'] == 'InternalEvent':
                out.append(('event sent', {'event': e}, n))
            else:
                out.append((e['name'], dict(e['data']), n))
    out.append(('step ended', {}, n))
    return out


def oracle(case):
    from ..cli import sha
    if case.get('empty_event'):
        # the event named '' is an event like any other (only None means "eventless")
        import copy
        case = copy.deepcopy(case)
        for t in case['spec']['transitions']:
            if t.get('event') == 'e1':
                t['event'] = ''
        for o in case['spec']['states'] + case['spec']['transitions']:
            for key in ('sends', 'sends_entry', 'sends_exit'):
                for s_ in o.get(key) or []:
                    if s_.get('kind', 'send') == 'send' and s_['name'] == 'e1':
                        s_['name'] = ''
        case['ops'] = [[op[0], ''] + op[2:] if op[0] == 'q' and op[1] == 'e1' else op
                       for op in case['ops']]
    spec = add_sprobes(probes.instrument(case['spec']), case.get('sprobe'))
    contracts = bool(case.get('sprobe'))
    by_tid = {t['id']: t for t in spec['transitions']}
    viol, labels, keys = [], {}, []
    plain = run(spec, case['ops'], None, contracts=contracts)
    ref = run(spec, case['ops'], 'record', contracts=contracts)
    labels['runs'] = 1
    if contracts:
        labels['runs with sent()/received() contracts in the monitored chart'] = 1
        if any(any(r[2:7]) for s_ in ref['sig'] for r in s_['sent_received_probes']):
            labels['runs where a contract saw sent(x) true'] = 1
    if plain['raised'] or ref['raised']:
        r = plain['raised'] or ref['raised']
        viol.append({'prop': PROP, 'kind': 'unexpected-exception', 'step': None,
                     'detail': {'exc': r['exc'], 'msg': str(r['exc_obj'])[:300],
                                'monitored': bool(ref['raised'])}})
        return {'violations': viol, 'labels': labels, 'keys': keys}
    # (4) non-intrusive
    for i, (a, b) in enumerate(zip(plain['sig'], ref['sig'])):
        if a != b:
            f = [k for k in a if a[k] != b[k]]
            viol.append({'prop': PROP, 'kind': 'monitoring-changes-run', 'step': i,
                         'detail': {'fields': f, 'unmonitored': {k: a[k] for k in f},
                                    'monitored': {k: b[k] for k in f}}})
            return {'violations': viol, 'labels': labels, 'keys': keys}
    # (1) (2) per step
    nlog = 0
    inside = set()     # indexes (in plog) of meta-events strictly inside a transition step
    for i, step in enumerate(ref['sig']):
        h0, h1, p0, p1 = ref['marks'][i]
        heard = ref['heard'][h0:h1]
        plog = ref['plog'][p0:p1]
        seen_p = [(n, norm_data(d)) for n, t, d in plog]
        seen_h = [(n, d) for n, d, _ in heard]
        if seen_h != seen_p:
            viol.append({'prop': PROP, 'kind': 'listener-and-property-chart-disagree', 'step': i,
                         'detail': {'listener': seen_h[:12], 'property_chart': seen_p[:12]}})
            break
        for n, t, d in plog:
            if t != step['T']:
                viol.append({'prop': PROP, 'kind': 'property-clock-not-step-time', 'step': i,
                             'detail': {'meta_event': n, 'clock': t, 'step_time': step['T']}})
                break
        if viol:
            break
        if step['exc']:
            labels['rejected steps'] = labels.get('rejected steps', 0) + 1
            nlog += len(step['log'])
            continue
        res = step['result']
        if res:
            for m in res['micro']:
                if m['has_t']:
                    t = by_tid[m['t']]
                    m['_meta_t'] = {'source': t['source'], 'target': t.get('target'),
                                    'event': res['event']}
        exp = expected_meta(step, step['T'], nlog)
        got = [(n, d, pos) for n, d, pos in heard if n != 'delayed event sent']
        if [(n, d) for n, d, _ in got] != [(n, d) for n, d, _ in exp]:
            j = next((j for j, (x, y) in enumerate(zip(got, exp)) if x[:2] != y[:2]),
                     min(len(got), len(exp)))
            viol.append({'prop': PROP, 'kind': 'meta-events-differ', 'step': i,
                         'detail': {'index': j, 'seen': [list(x[:2]) for x in got[j:j + 3]],
                                    'expected': [list(x[:2]) for x in exp[j:j + 3]],
                                    'n_seen': len(got), 'n_expected': len(exp)}})
            break
        if [pos for _, _, pos in got] != [pos for _, _, pos in exp]:
            j = next(j for j, (x, y) in enumerate(zip(got, exp)) if x[2] != y[2])
            viol.append({'prop': PROP, 'kind': 'meta-event-not-after-its-code', 'step': i,
                         'detail': {'meta_event': list(got[j][:2]),
                                    'code_records_before': got[j][2] - nlog,
                                    'expected': exp[j][2] - nlog}})
            break
        if res and any(m['has_t'] for m in res['micro']):
            labels['monitored steps firing a transition'] = labels.get(
                'monitored steps firing a transition', 0) + 1
            for j in range(p0 + 1, p1 - 1):
                inside.add(j)
        for m in (res['micro'] if res else []):
            m.pop('_meta_t', None)
        nlog += len(step['log'])
    M = len(ref['plog'])
    labels['meta-events (reference runs)'] = M
    if viol or M == 0:
        return {'violations': viol, 'labels': labels, 'keys': keys}
    step_of = {}
    for i, (h0, h1, p0, p1) in enumerate(ref['marks']):
        for j in range(p0, p1):
            step_of[j] = i
    # (6) a clock that advances by itself (every read later than the one before): the time frozen
    # at the call is what 'step started', MacroStep.time and the property clock show
    if case.get('ticking'):
        tk = run(spec, case['ops'], 'record', contracts=contracts, clock=tick_clock())
        labels['runs on a self-advancing clock'] = 1
        for i, step in enumerate(tk['sig']):
            h0, h1, p0, p1 = tk['marks'][i]
            T = step['step_time']
            st_times = [d_.get('time') for n_, d_, _ in tk['heard'][h0:h1] if n_ == 'step started']
            ptimes = sorted(set(t_ for n_, t_, d_ in tk['plog'][p0:p1]))
            mtime = step['result']['time'] if step['result'] else T
            if st_times != [T] or mtime != T or (ptimes and ptimes != [T]):
                viol.append({'prop': PROP, 'kind': 'step-time-not-frozen', 'step': i,
                             'detail': {'interpreter_time': T, 'step_started_time': st_times,
                                        'macrostep_time': mtime,
                                        'property_clock_values': ptimes[:4]}})
                break
        if viol:
            return {'violations': viol, 'labels': labels, 'keys': keys}
    # (5) listeners replaced between two steps: the old ones hear nothing more, the new ones
    # everything from then on
    if case.get('swap') is not None and len(ref['marks']) >= 2:
        j = 1 + int(case['swap'] * (len(ref['marks']) - 1))
        j = min(j, len(ref['marks']) - 1)
        h_j, _, p_j, _ = ref['marks'][j]
        sw = run(spec, case['ops'], 'record', contracts=contracts, swap_at=j)
        labels['listener replacements'] = 1
        det = {'replaced_before_step': j}
        for name, got, want in (('old listener', sw['heard'], ref['heard'][:h_j]),
                                ('new listener', sw['heard2'], ref['heard'][h_j:]),
                                ('old property chart', sw['plog'], ref['plog'][:p_j]),
                                ('new property chart', sw['plog2'], ref['plog'][p_j:])):
            got = [list(x[:2]) for x in got]
            want = [list(x[:2]) for x in want]
            if name.endswith('chart'):
                got = [[x[0]] for x in got]
                want = [[x[0]] for x in want]
            if got != want:
                det.update({'who': name, 'n_heard': len(got), 'n_expected': len(want),
                            'first_heard': got[:3], 'first_expected': want[:3]})
                viol.append({'prop': PROP, 'kind': 'replaced-listener-meta-events', 'step': j,
                             'detail': det})
                break
        if viol:
            return {'violations': viol, 'labels': labels, 'keys': keys}
    # (3b) a property chart with a time-out (delayed self-event, no eventless transition): it
    # must fail at the first meta-event whose step time has reached the due time
    if case.get('deadline'):
        X, J, D = case['deadline']
        seq = ref['plog']
        occ = [q for q, (n_, t_, d_) in enumerate(seq) if n_ == X]
        f = None
        if len(occ) >= J:
            a = occ[J - 1]
            due = seq[a][1] + D
            f = a if D == 0 else next((q for q in range(a + 1, len(seq)) if seq[q][1] >= due),
                                      None)
        r = run(spec, case['ops'], 'deadline', contracts=contracts, deadline=case['deadline'])
        labels['time-out property charts'] = 1
        det = {'deadline': case['deadline'], 'expected_meta_event_index': f}
        if f is None:
            if r['raised'] is not None:
                det['exc'] = r['raised']['exc']
                det['msg'] = str(r['raised']['exc_obj'])[:200]
                viol.append({'prop': PROP, 'kind': 'time-out-property-failed-without-cause',
                             'step': len(r['sig']) - 1, 'detail': det})
            elif r['log'] != ref['log']:
                viol.append({'prop': PROP, 'kind': 'monitoring-changes-run', 'step': None,
                             'detail': det})
        else:
            labels['time-out property charts that must fail'] = 1
            want_step = step_of[f]
            pos_f = ref['heard'][f][2]
            det.update({'meta_event': list(ref['heard'][f][:2]), 'expected_step': want_step})
            if r['raised'] is None:
                viol.append({'prop': PROP, 'kind': 'property-failure-not-raised',
                             'step': want_step, 'detail': det})
            elif r['raised']['exc'] != 'PropertyStatechartError':
                det['exc'] = r['raised']['exc']
                det['msg'] = str(r['raised']['exc_obj'])[:200]
                viol.append({'prop': PROP, 'kind': 'wrong-exception', 'step': want_step,
                             'detail': det})
            elif len(r['sig']) - 1 != want_step:
                det['raised_at'] = len(r['sig']) - 1
                viol.append({'prop': PROP, 'kind': 'property-failure-raised-at-wrong-step',
                             'step': want_step, 'detail': det})
            elif r['log'] != ref['log'][:pos_f]:
                det['code_after_failure'] = r['log'][pos_f:pos_f + 5]
                det['prefix_equal'] = r['log'][:pos_f] == ref['log'][:pos_f]
                viol.append({'prop': PROP, 'kind': 'monitored-code-ran-after-property-failure',
                             'step': want_step, 'detail': det})
        if viol:
            return {'violations': viol, 'labels': labels, 'keys': keys}
    # (3) fail fast at the k-th meta-event
    if case.get('ks') is None:
        ks = list(range(1, M + 1))
    else:
        ks = sorted(set(1 + int(f * M) for f in case['ks']))
    h = sha([case['spec'], case['ops']])
    for k in ks:
        r = run(spec, case['ops'], 'final', k=k, order=case.get('order', 'recorder-first'),
                contracts=contracts)
        labels['faults injected'] = labels.get('faults injected', 0) + 1
        want_step = step_of[k - 1]
        pos_k = ref['heard'][k - 1][2]
        det = {'k': k, 'meta_event': list(ref['heard'][k - 1][:2]), 'expected_step': want_step}
        if r['raised'] is None:
            viol.append({'prop': PROP, 'kind': 'property-failure-not-raised', 'step': want_step,
                         'detail': det})
            break
        if r['raised']['exc'] != 'PropertyStatechartError':
            det['exc'] = r['raised']['exc']
            det['msg'] = str(r['raised']['exc_obj'])[:200]
            viol.append({'prop': PROP, 'kind': 'wrong-exception', 'step': want_step,
                         'detail': det})
            break
        if len(r['sig']) - 1 != want_step:
            det['raised_at'] = len(r['sig']) - 1
            viol.append({'prop': PROP, 'kind': 'property-failure-raised-at-wrong-step',
                         'step': want_step, 'detail': det})
            break
        if r['log'] != ref['log'][:pos_k]:
            det['code_after_failure'] = r['log'][pos_k:pos_k + 5]
            det['prefix_equal'] = r['log'][:pos_k] == ref['log'][:pos_k]
            viol.append({'prop': PROP, 'kind': 'monitored-code-ran-after-property-failure',
                         'step': want_step, 'detail': det})
            break
        if (k - 1) in inside:
            keys.append(sha([h, k]))
    return {'violations': viol, 'labels': labels, 'keys': keys,
            'sample': {'n_states': len(case['spec']['states']), 'n_ops': len(case['ops']),
                       'meta_events': M, 'ks': ks[:12],
                       'first_meta_events': [list(x[:2]) for x in ref['heard'][:8]]}}
