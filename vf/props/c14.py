"""C14 Clocks are monotonic and faithful."""
from fractions import Fraction

from hypothesis import strategies as st

PROP = 'C14'
LEVEL = 'exploration'
BUDGET = {'quick': 32000, 'thorough': 640000}
RULE = ('cases = operation sequences (<=30 ops) over one SimulatedClock whose real-time source '
        '(sismic.clock.clock.time) is replaced by a scripted function: start, stop, speed=s '
        '(multiples of 1/8 in [0,16]), time=x (x below, equal to, or above the current value), '
        'real time passes by dt (multiples of 1/64), read, execute_once of an interpreter (which an '
        '`end` operation sends into its final configuration; steps go on afterwards) '
        'using the clock (for SynchronizedClock), and copy (deepcopy or pickle round trip of '
        'clock + interpreter + SynchronizedClock together; the copies replace the originals). An exact model (Fractions) predicts every read: '
        'never decreasing, frozen while stopped, speed x elapsed while started, rejected '
        'assignment raises ValueError and changes nothing, accepted assignment takes effect '
        'exactly; SynchronizedClock(i).time == i.time == clock value at the last execute_once, also '
        'for the clocks bind_property_statechart creates (regular and deprecated call, and on an '
        'interpreter that itself runs on a SynchronizedClock). '
        'Non-trivial = sequence with a speed change or an assignment while the clock is running '
        'and real time passing afterwards; distinct = sha1(op list).')
ASSUMPTIONS = ['all numbers are dyadic rationals between 2**-18 and 2**31 (at most 50 significant '
               'bits): float arithmetic is exact, so reads are compared for equality',
               'real time is the scripted source only (non-negative increments)']


def strategy(tier):
    dt = st.integers(0, 640).map(lambda n: n / 64)
    op = st.one_of(
        st.just(['start']), st.just(['stop']),
        st.tuples(st.just('speed'), st.integers(0, 128).map(lambda n: n / 8)).map(list),
        st.tuples(st.just('set'), st.integers(-256, 640).map(lambda n: n / 64)).map(list),
        st.tuples(st.just('pass'), dt).map(list), st.tuples(st.just('pass'), dt).map(list),
        st.just(['read']), st.just(['exec']), st.just(['exec']), st.just(['end']),
        st.sampled_from([['copy', 'deepcopy'], ['copy', 'pickle']]),
        # large magnitudes (epoch-like values) and near misses just below the current value
        st.sampled_from([['set', 2.0 ** 30], ['set', 2.0 ** 20], ['set', -2.0 ** -10],
                         ['set', -2.0 ** -16], ['set', -2.0 ** -18], ['set', 2.0 ** -18]]))
    return st.tuples(st.booleans(), st.lists(op, min_size=3, max_size=30)).map(
        lambda t: {'ops': ([['start']] if t[0] else []) + t[1]})


class Model:
    def __init__(self, real):
        self.real = Fraction(real)
        self.t = Fraction(0)
        self.running = False
        self.speed = Fraction(1)
        self.base = self.real

    def read(self):
        if self.running:
            return self.t + (self.real - self.base) * self.speed
        return self.t


def oracle(case):
    from ..cli import sha
    import sismic.clock.clock as cmod
    from sismic.clock import SimulatedClock, SynchronizedClock
    from sismic.interpreter import Interpreter
    from sismic.model import Statechart, BasicState
    viol, labels = [], {}
    m = Model(1024)
    real_time = cmod.time
    cmod.time = lambda: float(m.real)
    try:
        clock = SimulatedClock()
        from sismic.model import CompoundState, FinalState, Transition
        sc = Statechart('c')
        sc.add_state(CompoundState('r', initial='a'), None)
        sc.add_state(BasicState('a'), 'r')
        sc.add_state(FinalState('f'), 'r')
        sc.add_transition(Transition('a', 'f', event='end'))
        interp = Interpreter(sc, clock=clock)
        sync = SynchronizedClock(interp)
        # clocks created by bind_property_statechart (regular call and the deprecated call that
        # receives an Interpreter): they follow `interp` too.  Not combined with copies.
        followers = []
        chain = None
        if not any(o[0] == 'copy' for o in case['ops']):
            psc = Statechart('p')
            psc.add_state(BasicState('pa'), None)
            made = []
            interp.bind_property_statechart(
                psc, interpreter_klass=lambda sc_, clock: made.append(
                    Interpreter(sc_, clock=clock)) or made[-1])
            dep = Interpreter(psc)
            interp.bind_property_statechart(dep)
            followers = [('bound property statechart', made[0]),
                         ('property interpreter bound the deprecated way', dep)]
            # a chain: `second` runs on a clock that follows `interp`, and a property statechart
            # is bound to `second`: that property's clock follows `second`, not `interp`
            second = Interpreter(psc, clock=SynchronizedClock(interp))
            made2 = []
            second.bind_property_statechart(
                psc, interpreter_klass=lambda sc_, clock: made2.append(
                    Interpreter(sc_, clock=clock)) or made2[-1])
            chain = (second, made2[0])
            labels['sequences with bound property statecharts'] = 1
        last_read = Fraction(0)
        last_exec = Fraction(interp.time)
        changed_while_running = False
        nontrivial = False
        copied = False

        def bad(kind, i, **d):
            viol.append({'prop': PROP, 'kind': kind, 'step': i, 'detail': d})

        def check_read(i, why):
            nonlocal last_read
            got = clock.time
            want = m.read()
            if Fraction(got) != want:
                bad('read-differs-from-model', i, after=why, read=got, expected=float(want),
                    running=m.running, speed=float(m.speed))
                return False
            if Fraction(got) < last_read:
                bad('clock-went-backwards', i, after=why, read=got, previous=float(last_read))
                return False
            last_read = Fraction(got)
            return True

        other = SimulatedClock()      # a second instance, poked in between: no influence allowed
        for i, op in enumerate(case['ops']):
            k = op[0]
            j = i % 5
            if j == 0:
                other.start()
            elif j == 1:
                other.speed = 3
            elif j == 2:
                other.time = other.time + 1
            elif j == 3:
                other.stop()
            if k == 'start':
                clock.start()
                if not m.running:
                    m.base, m.running = m.real, True
            elif k == 'stop':
                clock.stop()
                if m.running:
                    m.t, m.running = m.read(), False
            elif k == 'speed':
                clock.speed = op[1]
                m.t, m.base, m.speed = m.read(), m.real, Fraction(op[1])
                if m.running:
                    changed_while_running = True
                if clock.speed != op[1]:
                    bad('speed-not-stored', i, speed=clock.speed, expected=op[1])
            elif k == 'set' and op[1] >= 2.0 ** 20 and m.read() >= 2 ** 30:
                pass      # (keeps every value exactly representable)
            elif k == 'set':
                now = m.read()
                x = now + Fraction(op[1])
                if x < 0:
                    x = Fraction(0) if now == 0 else x
                raised = False
                try:
                    clock.time = float(x)
                except ValueError:
                    raised = True
                except Exception as e:
                    bad('assignment-raised-other', i, exc=type(e).__name__)
                    break
                if x < now:
                    labels['assignment below current value'] = labels.get(
                        'assignment below current value', 0) + 1
                    if not raised:
                        bad('backward-assignment-accepted', i, value=float(x), current=float(now))
                        break
                else:
                    if raised:
                        bad('forward-assignment-rejected', i, value=float(x), current=float(now))
                        break
                    m.t, m.base = x, m.real
                    if m.running:
                        changed_while_running = True
                    if x == now:
                        labels['assignment equal to current value'] = labels.get(
                            'assignment equal to current value', 0) + 1
            elif k == 'pass':
                m.real += Fraction(op[1])
                if changed_while_running and m.running and op[1] > 0:
                    nontrivial = True
            elif k == 'copy':
                # the clock, the interpreter using it and the clock following that interpreter
                # are copied together and the copies replace them: same state, same relations
                import copy as _copy
                import pickle as _pickle
                if op[1] == 'deepcopy':
                    clock, interp, sync = _copy.deepcopy((clock, interp, sync))
                else:
                    clock, interp, sync = _pickle.loads(_pickle.dumps((clock, interp, sync)))
                labels['copies'] = labels.get('copies', 0) + 1
                copied = True
            elif k == 'end':
                interp.queue('end')      # the next step ends the followed statechart (final)
            elif k == 'exec':
                if copied and Fraction(m.read()) != last_exec:
                    labels['steps of a copied interpreter at a later time'] = labels.get(
                        'steps of a copied interpreter at a later time', 0) + 1
                interp.execute_once()
                last_exec = m.read()
                if Fraction(interp.time) != last_exec:
                    bad('interpreter-time-differs-from-clock', i, time=interp.time,
                        expected=float(last_exec))
                    break
            if not check_read(i, k):
                break
            if Fraction(sync.time) != last_exec or sync.time != interp.time:
                bad('synchronized-clock-differs-from-last-step-time', i, sync=sync.time,
                    interpreter_time=interp.time, last_step=float(last_exec))
                break
            for who, pi in followers:
                if Fraction(pi.clock.time) != last_exec:
                    bad('synchronized-clock-differs-from-last-step-time', i, which=who,
                        sync=pi.clock.time, last_step=float(last_exec))
                    break
            if chain is not None and not viol:
                second, pi2 = chain
                if k in ('read', 'speed'):
                    second.execute_once()      # the follower steps now and then
                if pi2.clock.time != second.time or second.time > interp.time:
                    bad('synchronized-clock-differs-from-last-step-time', i,
                        which='property statechart bound to an interpreter that itself follows',
                        sync=pi2.clock.time, follower_time=second.time,
                        leader_time=interp.time)
            if viol:
                break
    finally:
        cmod.time = real_time
    keys = [sha(case['ops'])] if nontrivial else []
    labels['sequences'] = 1
    return {'violations': viol, 'labels': labels, 'keys': keys, 'sample': case['ops'][:16]}
