"""C19 BDD verdicts are sound."""
import contextlib
import io
import json
import os
import shutil
import tempfile

from hypothesis import strategies as st

from .. import gen
from ..spec import Tree, to_statechart, to_yaml_text

PROP = 'C19'
LEVEL = 'exploration'
BUDGET = {'quick': 2400, 'thorough': 32000}
CASE_TIMEOUT = 180
RULE = ('cases = loop-free executable chart (variables x, y; actions send output events with '
        'parameters; eventless transitions guarded by after(d>=1)) + a feature file of 6-14 '
        'generated scenarios `Given* (When+ Then+)+` (repeated keywords partly spelled And / But) '
        'using every predefined step in its documented '
        'spelling (send event plain / with p=v / table, wait, do nothing, repeat, reproduce; state '
        'entered / not entered / exited / not exited / active / not active, event fired (plain, '
        'with parameter, table) / not fired, no event fired, variable equals / does not equal, '
        'expression "..." holds / does not hold, final / not final), about half of the assertions '
        'false. execute_bdd (JSON formatter; a fraction through the sismic-bdd CLI entry) gives '
        'per-step statuses; the harness evaluates the same scenario on a plain Interpreter '
        'following docs/behavior.rst; up to the first failing step reported passed <=> asserted '
        'fact true, later steps must not be passed; sismic.testing predicates are compared with a '
        'direct evaluation of the macro steps. Non-trivial = scenario with >=2 when-blocks and at '
        'least one false assertion; distinct = sha1(chart, scenario).')
ASSUMPTIONS = ['state names used in steps exist (documented requirement)',
               'behave 1.3.3 as installed; step statuses read from its JSON formatter']
MIX = (('sibling', 40), ('other', 15), ('orthin', 5), ('anc', 15), ('desc', 5), ('hist', 5),
       ('internal', 15))
VALUES = ['0', '1', '2', '3', "'a'", 'None', '[1, 2]', '[1, 2]', '[1, 2, 9]']


def strategy(tier):
    @st.composite
    def cases(draw):
        spec = draw(gen.charts(max_states=8, mix=MIX, max_tr=10, min_tr=4, n_events=3,
                               p_eventless=0.15, p_orth_root=0.2, root_final=0.3, p_hist=0.2))
        if draw(st.floats(0, 1)) < 0.35:
            # state names that contain one another (on/button, s1/s10, open/opened)
            pool = draw(st.permutations(['on', 'button', 'but', 's1', 's10', 's100', 's11', 'open',
                                         'opened', 'a', 'ab', 'abc', 'x', 'xy', 'off', 'of']))
            ren = {x['name']: (pool[k] if k < len(pool) else 'q%d' % k)
                   for k, x in enumerate(spec['states'])}
            for x in spec['states']:
                x['name'] = ren.get(x['name'], x['name'])
                for key in ('parent', 'initial', 'memory'):
                    if x.get(key) is not None:
                        x[key] = ren.get(x[key], x[key])
            for t in spec['transitions']:
                t['source'] = ren.get(t['source'], t['source'])
                if t.get('target') is not None:
                    t['target'] = ren.get(t['target'], t['target'])
        # 'basket' profile: the chart keeps list-valued event parameters and mutates them in place
        basket = draw(st.floats(0, 1)) < 0.25
        seen = set()
        keep = []
        for t in spec['transitions']:
            key = (t['source'], t['event'])
            if key in seen:
                continue
            seen.add(key)
            t['priority'] = 0
            if t['event'] is None and t.get('target') is None:
                # an internal eventless transition guarded by after() would fire forever
                t['event'] = 'e0'
                if (t['source'], 'e0') in seen:
                    continue
                seen.add((t['source'], 'e0'))
            if t['event'] is None:
                t['guard'] = 'after(%d)' % draw(st.sampled_from([1, 2, 5]))
            else:
                t['guard'] = draw(st.sampled_from([None, None, 'x < 3', 'y == 0',
                                                   "getattr(event, 'p', 0) == 1"]))
            acts = draw(st.lists(st.sampled_from(
                ['x = x + 1', 'y = x', "send('o0', v=x)", "send('o1')", "send('o0', v=1, w='a')",
                 "notify('n0', v=x)",
                 # the chart keeps an event parameter and later changes it in place
                 "z = getattr(event, 'q', z)", "z.append(9) if isinstance(z, list) else None"]),
                max_size=2))
            if basket and t['event'] is not None:
                acts = [{'e0': "z = getattr(event, 'q', z)",
                         'e1': "z.append(9) if isinstance(z, list) else None"}.get(
                             t['event'], 'x = x + 1')] + acts[:1]
                t['guard'] = None
            t['action'] = '\n'.join(acts) if acts else None
            keep.append(t)
        spec['transitions'] = keep
        for s in spec['states']:
            if draw(st.floats(0, 1)) < 0.2:
                s['on_entry'] = "send('o2', s=%d)" % s['sid']
            if draw(st.floats(0, 1)) < 0.1:
                s['on_exit'] = 'y = y + 1'
        spec['preamble'] = 'x = 0\ny = 0\nz = None'
        names = [s['name'] for s in spec['states']]
        events = ['e0', 'e1', 'e2']

        def act(depth=0, earlier=()):
            kinds = ['send', 'send', 'send_with', 'wait', 'nothing']
            if basket and depth == 0:
                kinds += ['send_table'] * 3
            if depth == 0:
                # (a Gherkin table cannot be attached to the step quoted inside a repeat step)
                kinds += ['repeat', 'send_table']
                if earlier:
                    kinds += ['reproduce']
            k = draw(st.sampled_from(kinds))
            if k == 'send':
                return {'k': k, 'name': draw(st.sampled_from(events))}
            if k == 'send_with':
                return {'k': k, 'name': draw(st.sampled_from(events)), 'p': 'p',
                        'v': draw(st.sampled_from(['0', '1', "'a'"]))}
            if k == 'send_table':
                return {'k': k, 'name': draw(st.sampled_from(events)),
                        'table': [['p', draw(st.sampled_from(['0', '1']))],
                                  ['q', '[1, 2]' if basket else draw(st.sampled_from(VALUES))]]}
            if k == 'wait':
                return {'k': k, 'seconds': draw(st.sampled_from([1, 2, 0.5, 5, 10])),
                        'plural': draw(st.booleans())}
            if k == 'repeat':
                return {'k': k, 'step': act(1), 'n': draw(st.integers(0, 3))}
            if k == 'reproduce':
                return {'k': k, 'scenario': draw(st.sampled_from(list(earlier)))}
            return {'k': 'nothing'}

        def then():
            k = draw(st.sampled_from(
                (['var_eq', 'var_ne'] * 4 if basket else []) +
                ['entered', 'not_entered', 'exited', 'not_exited', 'active', 'not_active',
                 'fired', 'fired_with', 'fired_table', 'not_fired', 'no_event', 'var_eq',
                 'var_ne', 'expr', 'not_expr', 'final', 'not_final']))
            d = {'k': k}
            if k in ('entered', 'not_entered', 'exited', 'not_exited', 'active', 'not_active'):
                d['name'] = draw(st.sampled_from(names))
            elif k in ('fired', 'not_fired'):
                d['name'] = draw(st.sampled_from(['o0', 'o1', 'o2', 'n0', 'e0']))
            elif k == 'fired_with':
                d['name'] = draw(st.sampled_from(['o0', 'o2', 'n0']))
                d['p'] = draw(st.sampled_from(['v', 's', 'w']))
                d['v'] = draw(st.sampled_from(VALUES))
                if draw(st.floats(0, 1)) < 0.4:
                    # the inline parameter and a table of further parameters on the same step
                    d['name'], d['p'] = 'o0', 'v'
                    d['v'] = draw(st.sampled_from(['1', '2', '0']))
                    d['table'] = [['w', draw(st.sampled_from(["'a'", "'b'"]))]]
            elif k == 'fired_table':
                d['name'] = 'o0'
                d['table'] = [['v', draw(st.sampled_from(['1', '2']))],
                              ['w', draw(st.sampled_from(["'a'", "'b'"]))]]
            elif k in ('var_eq', 'var_ne'):
                d['var'] = 'z' if basket and draw(st.booleans()) else draw(
                    st.sampled_from(['x', 'y', 'z', 'z', 'undefined_u']))
                d['v'] = draw(st.sampled_from(['[1, 2]', '[1, 2, 9]', 'None'] if basket else VALUES))
            elif k in ('expr', 'not_expr'):
                d['expr'] = draw(st.sampled_from(['x == 0', 'x > 1', 'y == x', 'x < 3 and y >= 0',
                                                  "active('%s')" % names[0], 'x == 5',
                                                  # operators binding weaker than `not`
                                                  'x == 1 or y == 2', 'x > 0 and y > 1',
                                                  'x == 0 or y == 0', 'x > 1 and y == 0',
                                                  'y if x else 1', 'x == 0 or y > 0 and z is None',
                                                  "active('%s') or x > 2" % names[-1]]))
            return d
        scenarios = []
        for i in range(draw(st.integers(6, 14))):
            earlier = tuple(s['name'] for s in scenarios)
            steps = [['Given', act(0, earlier)] for _ in range(draw(st.integers(0, 2)))]
            for _ in range(draw(st.integers(1, 3))):
                steps += [['When', act(0, earlier)] for _ in range(draw(st.integers(1, 3)))]
                steps += [['Then', then()] for _ in range(draw(st.integers(1, 3)))]
            # Gherkin continuation keywords: a step of the same type as the one before it may be
            # spelled And / But
            spell = [draw(st.sampled_from(['', '', 'And', 'But'])) for _ in steps]
            scenarios.append({'name': 'S%d' % i, 'steps': steps, 'spell': spell})
        # Background section (30 %): given steps behave runs before every scenario; "I reproduce"
        # replays the steps of the named scenario only
        background = []
        if draw(st.floats(0, 1)) < 0.3:
            for _ in range(draw(st.integers(1, 2))):
                if draw(st.booleans()):
                    background.append({'k': 'send', 'name': draw(st.sampled_from(events))})
                else:
                    background.append({'k': 'wait', 'seconds': draw(st.sampled_from([1, 2, 5])),
                                       'plural': True})
        return {'spec': spec, 'scenarios': scenarios, 'background': background,
                'cli': draw(st.floats(0, 1)) < 0.08}
    return cases()


# ------------------------------------------------------------------ feature text

def act_text(a):
    k = a['k']
    if k == 'send':
        return 'I send event %s' % a['name'], None
    if k == 'send_with':
        return 'I send event %s with %s=%s' % (a['name'], a['p'], a['v']), None
    if k == 'send_table':
        return 'I send event %s' % a['name'], a['table']
    if k == 'wait':
        return 'I wait %g %s' % (a['seconds'], 'seconds' if a['plural'] else 'second'), None
    if k == 'nothing':
        return 'I do nothing', None
    if k == 'repeat':
        inner, table = act_text(a['step'])
        return 'I repeat "%s" %d times' % (inner, a['n']), None
    if k == 'reproduce':
        return 'I reproduce "%s"' % a['scenario'], None
    raise ValueError(k)


def then_text(t):
    k = t['k']
    simple = {'entered': 'state %s is entered', 'not_entered': 'state %s is not entered',
              'exited': 'state %s is exited', 'not_exited': 'state %s is not exited',
              'active': 'state %s is active', 'not_active': 'state %s is not active',
              'fired': 'event %s is fired', 'not_fired': 'event %s is not fired'}
    if k in simple:
        return simple[k] % t['name'], None
    if k == 'fired_with':
        return 'event %s is fired with %s=%s' % (t['name'], t['p'], t['v']), t.get('table')
    if k == 'fired_table':
        return 'event %s is fired' % t['name'], t['table']
    if k == 'no_event':
        return 'no event is fired', None
    if k == 'var_eq':
        return 'variable %s equals %s' % (t['var'], t['v']), None
    if k == 'var_ne':
        return 'variable %s does not equal %s' % (t['var'], t['v']), None
    if k == 'expr':
        return 'expression "%s" holds' % t['expr'], None
    if k == 'not_expr':
        return 'expression "%s" does not hold' % t['expr'], None
    if k == 'final':
        return 'statechart is in a final configuration', None
    if k == 'not_final':
        return 'statechart is not in a final configuration', None
    raise ValueError(k)


def feature_text(scenarios, background=()):
    lines = ['Feature: generated', '']
    if background:
        lines.append('  Background:')
        for j, a in enumerate(background):
            lines.append('    %s %s' % ('Given' if j == 0 else 'And', act_text(a)[0]))
        lines.append('')
    for sc in scenarios:
        lines.append('  Scenario: %s' % sc['name'])
        spell = sc.get('spell') or []
        prev = None
        for j, (kw, s) in enumerate(sc['steps']):
            text, table = then_text(s) if kw == 'Then' else act_text(s)
            word = spell[j] if j < len(spell) and spell[j] and prev == kw else kw
            prev = kw
            lines.append('    %s %s' % (word, text))
            if table:
                lines.append('      | parameter | value |')
                for p, v in table:
                    lines.append('      | %s | %s |' % (p, v))
        lines.append('')
    return '\n'.join(lines)


# ------------------------------------------------------------------ direct evaluation

class Sim:
    """evaluates a scenario on a plain Interpreter following docs/behavior.rst"""

    def __init__(self, sc, scenarios):
        from sismic.interpreter import Interpreter
        self.interp = Interpreter(sc)
        self.by_name = {s['name']: s for s in scenarios}
        self.monitoring = False
        self.trace = None
        self.raw = None

    def run_to_quiescence(self, when):
        steps = self.interp.execute()
        if when:
            if not self.monitoring:
                self.monitoring = True
                self.trace, self.raw = [], []
            self.raw.extend(steps)
            for s in steps:
                self.trace.append({
                    'entered': [n for m in s.steps for n in m.entered_states],
                    'exited': [n for m in s.steps for n in m.exited_states],
                    'sent': [(e.name, dict(e.data)) for m in s.steps for e in m.sent_events]})

    def act(self, a, when):
        k = a['k']
        if k in ('send', 'send_with', 'send_table'):
            params = {}
            for p, v in a.get('table') or []:
                params[p] = eval(v, {}, {})
            if k == 'send_with':
                params[a['p']] = eval(a['v'], {}, {})
            self.interp.queue(a['name'], **params)
        elif k == 'wait':
            self.interp.clock.time += a['seconds']
        elif k == 'repeat':
            for _ in range(a['n']):
                self.act(a['step'], when)
        elif k == 'reproduce':
            for kw, s in self.by_name[a['scenario']]['steps']:
                if kw in ('Given', 'When'):
                    self.act(s, when)
        self.run_to_quiescence(when)

    def check(self, t):
        k = t['k']
        tr = self.trace
        ctx = self.interp.context
        if k in ('entered', 'not_entered'):
            r = any(t['name'] in s['entered'] for s in tr)
            return r if k == 'entered' else not r
        if k in ('exited', 'not_exited'):
            r = any(t['name'] in s['exited'] for s in tr)
            return r if k == 'exited' else not r
        if k == 'active':
            return t['name'] in self.interp.configuration
        if k == 'not_active':
            return t['name'] not in self.interp.configuration
        if k in ('fired', 'not_fired', 'fired_with', 'fired_table'):
            params = {}
            for p, v in t.get('table') or []:
                params[p] = eval(v, {}, {})
            if k == 'fired_with':
                params[t['p']] = eval(t['v'], {}, {})
            r = any(n == t['name'] and all(d.get(p, None) == v for p, v in params.items())
                    for s in tr for n, d in s['sent'])
            return (not r) if k == 'not_fired' else r
        if k == 'no_event':
            return not any(s['sent'] for s in tr)
        if k in ('var_eq', 'var_ne'):
            if t['var'] not in ctx:
                return False
            same = ctx[t['var']] == eval(t['v'], {}, {})
            return same if k == 'var_eq' else not same
        if k in ('expr', 'not_expr'):
            env = {'active': lambda n: n in self.interp.configuration, 'time': self.interp.time}
            r = bool(eval(t['expr'], env, dict(ctx)))
            return r if k == 'expr' else not r
        if k == 'final':
            return self.interp.final
        if k == 'not_final':
            return not self.interp.final
        raise ValueError(k)


def expected_statuses(sc, scenario, scenarios, background=()):
    """list of 'passed' | 'failed' | 'skipped' for the top-level steps, plus Sim"""
    sim = Sim(sc, scenarios)
    out = []
    failed = False
    for a in background:
        try:
            sim.act(a, False)
        except Exception:
            # a Background step that fails: every step of the scenario is skipped
            sim.background_failed = True
            return ['skipped'] * len(scenario['steps']), sim
    for kw, s in scenario['steps']:
        if failed:
            out.append('skipped')
            continue
        try:
            if kw == 'Then':
                sim.monitoring = False
                ok = sim.check(s)
            else:
                sim.act(s, kw == 'When')
                ok = True
        except Exception:
            ok = False
        out.append('passed' if ok else 'failed')
        failed = not ok
    return out, sim


# ------------------------------------------------------------------ behave

def run_behave(sc, spec, text, use_cli):
    """returns {scenario name: [status, ...]}"""
    from sismic.bdd import execute_bdd
    tmp = tempfile.mkdtemp(prefix='c19-')
    try:
        fpath = os.path.join(tmp, 'generated.feature')
        with open(fpath, 'w') as f:
            f.write(text)
        out = os.path.join(tmp, 'out.json')
        params = ['-f', 'json', '-o', out, '--no-summary', '--no-color']
        buf = io.StringIO()
        with contextlib.redirect_stdout(buf), contextlib.redirect_stderr(buf):
            if use_cli:
                from sismic.bdd.__main__ import cli
                ypath = os.path.join(tmp, 'chart.yaml')
                with open(ypath, 'w') as f:
                    f.write(to_yaml_text(spec))
                cli([ypath, '--features', fpath] + params)
            else:
                execute_bdd(sc, [fpath], behave_parameters=params)
        with open(out) as f:
            data = json.load(f)
        res = {}
        for feat in data:
            for el in feat.get('elements', []):
                if el.get('type') != 'scenario':
                    continue
                res[el['name']] = [(st_.get('result') or {}).get('status', 'skipped')
                                   for st_ in el.get('steps', [])]
        return res
    finally:
        shutil.rmtree(tmp, ignore_errors=True)


def step_kind(kw, s):
    k = s['k']
    if k == 'expr':
        return 'expression_holds_quoted'
    if k == 'not_expr':
        return 'expression_does_not_hold_quoted'
    return k


def oracle(case):
    from ..cli import sha
    from sismic import testing
    spec = case['spec']
    sc = to_statechart(spec)
    text = feature_text(case['scenarios'], case.get('background') or ())
    viol, labels, keys = [], {}, []
    try:
        got = run_behave(sc, spec, text, case.get('cli'))
    except Exception as e:
        return {'violations': [{'prop': PROP, 'kind': 'bdd-run-failed', 'step': None,
                                'detail': {'exc': type(e).__name__, 'msg': str(e)[:300],
                                           'cli': bool(case.get('cli'))}}],
                'labels': labels, 'keys': keys}
    labels['feature files'] = 1
    if case.get('background'):
        labels['feature files with a Background section'] = 1
    if case.get('cli'):
        labels['feature files run through the sismic-bdd entry point'] = 1
    h = sha(spec)
    sample = None
    for scn in case['scenarios']:
        exp, sim = expected_statuses(sc, scn, case['scenarios'], case.get('background') or ())
        rep = got.get(scn['name'])
        nb = len(case.get('background') or ())
        if rep is not None and nb:
            # behave reports the Background steps at the head of every scenario
            if (rep[:nb] != ['passed'] * nb) != bool(getattr(sim, 'background_failed', False)):
                viol.append({'prop': PROP, 'kind': 'background-step-not-passed', 'step': None,
                             'detail': {'scenario': scn['name'], 'reported': rep}})
                break
            rep = rep[nb:]
        labels['scenarios'] = labels.get('scenarios', 0) + 1
        if rep is None or len(rep) != len(exp):
            viol.append({'prop': PROP, 'kind': 'scenario-not-reported', 'step': None,
                         'detail': {'scenario': scn['name'], 'reported': rep}})
            break
        for i, (e, r) in enumerate(zip(exp, rep)):
            kw, s = scn['steps'][i]
            if e == 'skipped':
                if r == 'passed':
                    viol.append({'prop': PROP, 'kind': 'step-passed-after-a-failure', 'step': i,
                                 'detail': {'scenario': scn['name'], 'step_kind': step_kind(kw, s)}})
                continue
            labels['%s steps' % kw.lower()] = labels.get('%s steps' % kw.lower(), 0) + 1
            if kw == 'Then':
                labels['assertions ' + ('true' if e == 'passed' else 'false')] = labels.get(
                    'assertions ' + ('true' if e == 'passed' else 'false'), 0) + 1
            if (e == 'passed') != (r == 'passed'):
                text_, _ = then_text(s) if kw == 'Then' else act_text(s)
                viol.append({'prop': PROP, 'kind': 'bdd-verdict', 'step': i,
                             'detail': {'scenario': scn['name'], 'step': kw + ' ' + text_,
                                        'step_kind': step_kind(kw, s), 'reported': r,
                                        'fact_is': e == 'passed',
                                        'context': {k: repr(v) for k, v in
                                                    sim.interp.context.items()},
                                        'configuration': list(sim.interp.configuration)}})
                break
        if viol:
            break
        # sismic.testing predicates vs direct evaluation, on the last monitored trace
        if sim.raw:
            for n in [s['name'] for s in spec['states']][:4]:
                a = testing.state_is_entered(sim.raw, n)
                b = any(n in s['entered'] for s in sim.trace)
                c = testing.state_is_exited(sim.raw, n)
                d = any(n in s['exited'] for s in sim.trace)
                if a != b or c != d:
                    viol.append({'prop': PROP, 'kind': 'testing-predicate-differs', 'step': None,
                                 'detail': {'state': n, 'state_is_entered': a, 'direct': b,
                                            'state_is_exited': c, 'direct_exited': d}})
            for name in ('o0', 'o1', 'o2', None):
                a = testing.event_is_fired(sim.raw, name)
                b = any(name is None or nm == name for s in sim.trace for nm, _ in s['sent'])
                if a != b:
                    viol.append({'prop': PROP, 'kind': 'testing-predicate-differs', 'step': None,
                                 'detail': {'event': name, 'event_is_fired': a, 'direct': b}})
            a = testing.event_is_fired(sim.raw, 'o0', {'v': 1})
            b = any(nm == 'o0' and d.get('v') == 1 for s in sim.trace for nm, d in s['sent'])
            if a != b:
                viol.append({'prop': PROP, 'kind': 'testing-predicate-differs', 'step': None,
                             'detail': {'event': 'o0', 'parameters': {'v': 1},
                                        'event_is_fired': a, 'direct': b}})
            if viol:
                break
        blocks = 0
        prev = None
        for kw, _ in scn['steps']:
            if kw == 'When' and prev != 'When':
                blocks += 1
            prev = kw
        if blocks >= 2 and 'failed' in exp:
            keys.append(sha([h, scn]))
            if sample is None:
                sample = {'scenario': [kw + ' ' + (then_text(s) if kw == 'Then' else
                                                   act_text(s))[0] for kw, s in scn['steps']],
                          'expected': exp}
    return {'violations': viol, 'labels': labels, 'keys': keys, 'sample': sample}
