"""C20 Async runner: no step unreported, no event lost, orderly lifecycle."""
from hypothesis import strategies as st

from .. import gen, probes
from ..refmodel import QueueModel
from ..sched import Sched, FakeThreading, FakeTime
from ..spec import to_statechart

PROP = 'C20'
LEVEL = 'exploration'
BUDGET = {'quick': 9600, 'thorough': 160000}
RULE = ('cases = small deterministic chart (may reach a final state), runner options (interval, '
        'execute_all), a virtual duration of each cycle (0 .. 0.5, so cycles may overrun the '
        'interval), 1-3 client scripts over queue(ev[,delay]) / pause / unpause / stop / '
        'advance clock / sleep with a final stop() by the main client, and a schedule choice '
        'list. The harness owns the schedule: threading and time inside sismic.runner.runner are '
        'replaced by shims over a baton scheduler (one thread at a time, switches only at yield '
        'points, virtual time, deadlock detection); coarse schedules yield at every shim call, '
        'runner hook, at entry/exit of queue/execute_once and (half of the cases) inside the '
        'statechart\'s entry code and actions, line schedules additionally at every '
        'line of runner.py, line+queue schedules also at every line of _queue_event/_select_event. Oracle: steps handed to '
        'after_execute == steps executed (each once, in order, <=1 per cycle unless '
        'execute_all); before_run/after_run exactly once; every queued uid consumed at most once '
        'and consumed + still pending == queued, in the order of a queue model fed with the '
        'linearised calls; after pause() returned at most one cycle starts before the next '
        'unpause() (a stop() in between included; none at all if no cycle was under way); a second '
        'runner started on the then final statechart ends by itself without a cycle; stop() returns, the thread is dead and nothing executes afterwards; a '
        'final statechart ends the runner by itself. Non-trivial = a client operation '
        'interleaved inside a runner cycle, or a pause/stop landing between the wait gate and '
        'the cycle start; distinct = sha1(scripts, consumed schedule prefix).')
ASSUMPTIONS = ['interleavings are explored at the granularity of the yield points (line level for '
               'the listed functions), sampled not enumerated',
               'a schedule exceeding the scheduler step budget is inconclusive']


def strategy(tier):
    @st.composite
    def cases(draw):
        spec = draw(gen.charts(max_states=5, max_tr=8, min_tr=3, n_events=2, p_eventless=0.0,
                               p_hist=0.0, root_final=0.4, p_orth_root=0.0,
                               allow_orthogonal=False, priorities=[0]))
        seen, keep = set(), []
        for t in spec['transitions']:
            if (t['source'], t['event']) in seen:
                continue
            seen.add((t['source'], t['event']))
            keep.append(t)
        spec['transitions'] = keep
        nclients = draw(st.sampled_from([1, 1, 2, 2, 3]))
        scripts = []
        uid = [0]

        def script(n):
            ops = []
            for _ in range(n):
                k = draw(st.sampled_from(['q', 'q', 'q', 'q', 'pause', 'unpause', 'adv', 'sleep',
                                          'stop']))
                if k == 'q':
                    d = draw(st.sampled_from([None, None, None, 0, 0.5, 1]))
                    ops.append(['q', draw(st.sampled_from(['e0', 'e1'])), d, 'x%d' % uid[0]])
                    uid[0] += 1
                elif k == 'adv':
                    ops.append(['adv', draw(st.sampled_from([0.5, 1, 2]))])
                elif k == 'sleep':
                    ops.append(['sleep', draw(st.sampled_from([0.05, 0.1, 0.3]))])
                elif k == 'stop':
                    if draw(st.floats(0, 1)) < 0.3:
                        ops.append(['stop'])
                else:
                    ops.append([k])
            return ops
        for c in range(nclients):
            scripts.append(script(draw(st.integers(1, 7))))
        pre = draw(st.integers(0, 3))
        prequeue = []
        for _ in range(pre):
            prequeue.append(['q', draw(st.sampled_from(['e0', 'e1'])),
                             draw(st.sampled_from([None, None, 0.5])), 'x%d' % uid[0]])
            uid[0] += 1
        line = draw(st.sampled_from([False, False, 'runner', 'runner', 'queue']))
        choices = draw(st.lists(st.integers(0, 5), min_size=0, max_size=60))
        return {'spec': spec, 'scripts': scripts, 'prequeue': prequeue,
                'interval': draw(st.sampled_from([0.1, 0.1, 0, 0.5])),
                'work': draw(st.sampled_from([0, 0, 0, 0.05, 0.1, 0.25, 0.5])),
                'code_yields': draw(st.booleans()),
                'execute_all': draw(st.booleans()), 'line': line, 'choices': choices,
                'seed': draw(st.integers(0, 2 ** 20))}
    return cases()


def run_schedule(case):
    """execute one schedule; returns the observation dict"""
    import sismic.runner.runner as rmod
    from sismic.interpreter import Interpreter
    from sismic.runner import AsyncRunner
    raw = case['spec']
    if case.get('code_yields'):
        # the statechart's own entry code and actions are places where the schedule may switch
        import copy as _copy
        raw = _copy.deepcopy(raw)
        for x in raw['states']:
            x['extra_entry'] = list(x.get('extra_entry') or []) + ['yp()']
        for t in raw['transitions']:
            t['extra'] = list(t.get('extra') or []) + ['yp()']
    spec = probes.instrument(raw, guards=None)
    sc = to_statechart(spec)
    sched = Sched(case['choices'], budget=20000 if case['line'] else 5000,
                  line_level=case['line'],
                  trace_files=(('sismic/runner/runner.py', 'sismic/interpreter/default.py')
                               if case['line'] == 'queue' else ('sismic/runner/runner.py',)),
                  trace_funcs=('_queue_event', '_select_event'), seed=case.get('seed', 0))
    interp = Interpreter(sc, initial_context=probes.new_context(
        {'yp': lambda: sched.yp('statechart code')}))
    log = []          # global linearised observation log
    executed = []     # every value returned by execute_once, in order
    step_index = {}
    obs = {'log': log, 'executed': executed, 'sched': sched, 'interp': interp}

    orig_exec = interp.execute_once
    orig_queue = interp.queue

    def execute_once():
        sched.yp('execute_once enter')
        log.append(('exec-enter', interp.clock.time))
        res = orig_exec()
        idx = len(executed)
        executed.append(res)
        if res is not None:
            step_index[id(res)] = idx
        ev = res.event if res is not None else None
        log.append(('exec-exit', idx, None if res is None else (
            getattr(ev, 'uid', None) if ev is not None else None), res is None,
            interp.time))
        sched.yp('execute_once exit')
        return res

    def queue(name, **kw):
        sched.yp('queue enter')
        log.append(('queue-enter', kw.get('uid'), name, kw.get('delay'), interp.time))
        r = orig_queue(name, **kw)
        log.append(('queue-exit', kw.get('uid'), interp.time))
        sched.yp('queue exit')
        return r
    interp.execute_once = execute_once
    interp.queue = queue

    class Runner(AsyncRunner):
        def before_run(self):
            log.append(('before_run',))
            sched.yp('before_run')

        def after_run(self):
            log.append(('after_run',))
            sched.yp('after_run')

        def before_execute(self):
            sched.yp('before_execute')
            log.append(('before_execute',))
            if case.get('work'):
                sched.sleep(case['work'], 'cycle takes time')   # a cycle that lasts (virtual time)

        def after_execute(self, steps):
            log.append(('after_execute', [step_index.get(id(s), -1) for s in steps]))
            sched.yp('after_execute')

    old_threading, old_time = rmod.threading, rmod.time
    rmod.threading = FakeThreading(sched)
    rmod.time = FakeTime(sched)
    box = {}
    try:
        for q in case['prequeue']:
            kw = {'uid': q[3]}
            if q[2] is not None:
                kw['delay'] = q[2]
            orig_queue(q[1], **kw)
            log.append(('queue-enter', q[3], q[1], q[2], interp.time))
            log.append(('queue-exit', q[3], interp.time))
        runner = Runner(interp, interval=case['interval'], execute_all=case['execute_all'])
        # the runner thread passing its pause gate (Event.wait on _unpaused) is logged: what
        # follows a passed gate is "the cycle already under way"
        def _gate():
            me = sched.me()
            if me is not None and me.name == 'runner':
                log.append(('gate',))
        runner._unpaused.on_pass = _gate
        box['runner'] = runner

        def client(cid, ops):
            for op in ops:
                k = op[0]
                if k == 'q':
                    kw = {'uid': op[3]}
                    if op[2] is not None:
                        kw['delay'] = op[2]
                    interp.queue(op[1], **kw)
                elif k == 'pause':
                    log.append(('op-call', cid, 'pause'))
                    runner.pause()
                    log.append(('op-return', cid, 'pause'))
                elif k == 'unpause':
                    log.append(('op-call', cid, 'unpause'))
                    runner.unpause()
                    log.append(('op-return', cid, 'unpause'))
                elif k == 'stop':
                    log.append(('op-call', cid, 'stop'))
                    runner.stop()
                    log.append(('op-return', cid, 'stop'))
                elif k == 'adv':
                    sched.yp('advance clock')
                    interp.clock.time += op[1]
                elif k == 'sleep':
                    sched.sleep(op[1], 'client sleep')

        def main():
            log.append(('op-call', 0, 'start'))
            runner.start()
            log.append(('op-return', 0, 'start'))
            others = []
            for cid, ops in enumerate(case['scripts'][1:], start=1):
                others.append(sched.spawn('client%d' % cid,
                                          lambda cid=cid, ops=ops: client(cid, ops)))
            client(0, case['scripts'][0])
            for t in others:
                if t.state != 'done':
                    sched.block(lambda t=t: t.state == 'done', 'join client')
            # a runner whose statechart is final and which is not paused ends by itself
            # (definitely not paused: every pause() had returned before the last unpause() began)
            stopped = any(x[0] == 'op-call' and x[2] == 'stop' for x in log)
            last_pause = max([k for k, x in enumerate(log) if x[2:3] == ('pause',)] or [-1])
            last_unp = max([k for k, x in enumerate(log)
                            if x[0] == 'op-call' and x[2] == 'unpause'] or [-1])
            if interp.final and not stopped and (last_pause < 0 or last_unp > last_pause):
                log.append(('op-call', 0, 'wait'))
                runner.wait()
                log.append(('op-return', 0, 'wait'))
            log.append(('op-call', 0, 'final-stop'))
            runner.stop()
            log.append(('op-return', 0, 'final-stop'))
            log.append(('alive-after-stop', runner.running))
            if interp.final:
                # a second runner started on the statechart that is already final: it stops by
                # itself without a single cycle (before_run and after_run once each)
                class Runner2(AsyncRunner):
                    def __del__(self):       # (never stop() from the garbage collector)
                        pass

                    def before_run(self):
                        log.append(('r2-before_run',))

                    def after_run(self):
                        log.append(('r2-after_run',))

                    def before_execute(self):
                        log.append(('r2-before_execute',))
                        if sum(1 for x in log if x[0] == 'r2-before_execute') >= 3:
                            self._stop.set()      # (harness: do not spin for ever)
                r2 = Runner2(interp, interval=case['interval'],
                             execute_all=case['execute_all'])
                r2.start()
                r2.wait()
                log.append(('r2-done',))
        status = sched.run_main(main)
        obs['status'] = status
        obs['thread_errors'] = [(t.name, type(t.exc).__name__, str(t.exc)[:200])
                                for t in sched.threads if t.exc is not None]
    finally:
        rmod.threading, rmod.time = old_threading, old_time
        # make the runner's __del__ harmless
        try:
            box['runner'].__class__.__del__ = lambda self: None
        except Exception:
            pass
    obs['pending'] = [e.uid for _, e in interp._external_queue]
    obs['final'] = interp.final
    return obs


def V(kind, **detail):
    return {'prop': PROP, 'kind': kind, 'step': None, 'detail': detail}


def oracle(case):
    from ..cli import sha
    obs = run_schedule(case)
    log, sched = obs['log'], obs['sched']
    gran = {False: 'coarse', True: 'line+queue', 'runner': 'line', 'queue': 'line+queue'}[case['line']]
    labels = {'schedules (%s)' % gran: 1}
    viol = []
    if obs['status'] == 'budget':
        labels['schedules over the step budget (inconclusive)'] = 1
        return {'violations': [], 'labels': labels, 'keys': []}
    if obs['thread_errors']:
        viol.append(V('exception-in-thread', errors=obs['thread_errors'], granularity=gran))
    # ---- lifecycle
    names = [x[0] for x in log]
    stops_called = [i for i, x in enumerate(log) if x[0] == 'op-call' and x[2] in ('stop',
                                                                                 'final-stop')]
    pause_raced = False
    if obs['status'] in ('deadlock', 'leftover'):
        info = sched.deadlock_info or []
        # was a pause() issued (by anyone) after the first stop() was called?
        first_stop = stops_called[0] if stops_called else None
        if first_stop is not None:
            pause_raced = any(x[0] == 'op-call' and x[2] == 'pause' for x in log[first_stop:])
        in_stop = any(x[0] == 'op-call' and x[2] in ('stop', 'final-stop') for x in log) and not \
            any(x[0] == 'op-return' and x[2] == 'final-stop' for x in log)
        in_wait = any(x[0] == 'op-call' and x[2] == 'wait' for x in log) and not \
            any(x[0] == 'op-return' and x[2] == 'wait' for x in log)
        if in_wait:
            viol.append(V('runner-does-not-end-when-final', blocked=info, granularity=gran,
                          tail=[list(map(str, x)) for x in log[-8:]]))
            return finish(case, obs, viol, labels)
        viol.append(V('stop-never-returns' if in_stop else 'deadlock', blocked=info,
                      pause_raced_stop=pause_raced, granularity=gran,
                      tail=[list(map(str, x)) for x in log[-8:]]))
        return finish(case, obs, viol, labels)
    if 'r2-done' in names:
        labels['second runner started on a final statechart'] = 1
        if names.count('r2-before_execute') or names.count('r2-before_run') != 1 \
                or names.count('r2-after_run') != 1:
            viol.append(V('runner-on-final-statechart', cycles=names.count('r2-before_execute'),
                          before_run=names.count('r2-before_run'),
                          after_run=names.count('r2-after_run'), granularity=gran))
    if names.count('before_run') != 1:
        viol.append(V('before_run-count', count=names.count('before_run')))
    if names.count('after_run') != 1:
        viol.append(V('after_run-count', count=names.count('after_run'), granularity=gran))
    # ---- every executed step reported exactly once, in order
    reported = [i for x in log if x[0] == 'after_execute' for i in x[1]]
    executed_steps = [i for i, r in enumerate(obs['executed']) if r is not None]
    if reported != executed_steps:
        viol.append(V('steps-reported-differ-from-executed', reported=reported,
                      executed=executed_steps, execute_all=case['execute_all'],
                      granularity=gran))
    if not case['execute_all']:
        for x in log:
            if x[0] == 'after_execute' and len(x[1]) > 1:
                viol.append(V('several-steps-in-one-cycle', steps=x[1]))
                break
    # ---- nothing executes after stop() returned
    ret = [i for i, x in enumerate(log) if x[0] == 'op-return' and x[2] in ('stop', 'final-stop')]
    if ret:
        after = [x for x in log[ret[0]:] if x[0] in ('exec-enter', 'before_execute')]
        if after:
            viol.append(V('executes-after-stop-returned', events=[list(map(str, x)) for x in
                                                                  after[:3]], granularity=gran))
        if 'after_run' in names and names.index('after_run') > ret[0]:
            viol.append(V('stop-returned-before-after_run', granularity=gran))
    alive = [x for x in log if x[0] == 'alive-after-stop']
    if alive and alive[-1][1]:
        viol.append(V('thread-alive-after-stop'))
    # ---- pause: at most one cycle starts after pause() returned, before the next unpause()
    i = 0
    while i < len(log):
        x = log[i]
        if x[0] == 'op-return' and x[2] == 'pause':
            # an unpause() overlapping this pause() call may take effect after it: ambiguous
            k = i - 1
            while k >= 0 and not (log[k][0] == 'op-call' and log[k][1] == x[1]
                                  and log[k][2] == 'pause'):
                k -= 1
            # (any unpause() whose call..return interval intersects this pause()'s interval,
            # also one that was called before pause() and returns after it)
            overl = False
            for a, y in enumerate(log[:i]):
                if y[0] == 'op-call' and y[2] == 'unpause':
                    b = next((q for q in range(a + 1, len(log)) if log[q][0] == 'op-return'
                              and log[q][1] == y[1] and log[q][2] == 'unpause'), len(log))
                    if b > k:
                        overl = True
                        break
            if overl:
                i += 1
                continue
            cycles = 0
            j = i + 1
            # the window is closed by unpause() only: stop() on a paused runner must not let it
            # run a further cycle either
            while j < len(log) and not (log[j][0] == 'op-call' and log[j][2] == 'unpause'):
                if log[j][0] == 'before_execute':
                    cycles += 1
                j += 1
            # a cycle is under way when pause() returns iff the runner has passed its gate and
            # has not started the cycle behind that gate yet; otherwise no cycle may start
            gates = [q for q in range(i) if log[q][0] == 'gate']
            allowed = 1 if gates and not any(log[q][0] == 'before_execute'
                                             for q in range(gates[-1], i)) else 0
            if cycles > allowed:
                viol.append(V('cycles-while-paused', cycles=cycles, allowed=allowed,
                              granularity=gran))
                break
            labels['pause observed'] = labels.get('pause observed', 0) + 1
        i += 1
    # ---- events: partial-order queue model over the observed call intervals
    # every queue() call is an interval [enter, exit] in the global log; so is every execute_once.
    # An event w is *definitely ahead* of u when it is due earlier, or equally due and its
    # queue() call returned before u's began (overlapping calls may linearise either way).
    ev = {}            # uid -> {'due', 'enter', 'exit'}
    pending = []       # uids queued (enter seen) and not yet consumed
    consumed = []
    any_overlap = False
    exec_enter = None
    for pos, x in enumerate(log):
        if x[0] == 'queue-enter':
            ev[x[1]] = {'due': x[4] + (x[3] or 0), 'hi': x[4] + (x[3] or 0), 'delay': x[3] or 0,
                        'enter': pos, 'exit': None, 'uid': x[1]}
            if exec_enter is not None or any(ev[u]['exit'] is None for u in pending):
                any_overlap = True      # overlaps an execute_once or another queue() call
            pending.append(x[1])
        elif x[0] == 'queue-exit':
            ev[x[1]]['exit'] = pos
            # the interpreter's time may have moved while the call was in progress: the due time
            # is then either of the two values
            ev[x[1]]['hi'] = max(ev[x[1]]['due'], x[2] + ev[x[1]]['delay'])
        elif x[0] == 'exec-enter':
            exec_enter = pos
            if any(ev[u]['exit'] is None for u in pending):
                any_overlap = True
        elif x[0] == 'exec-exit':
            idx, uid, was_none, T = x[1], x[2], x[3], x[4]
            e_enter, exec_enter = exec_enter, None
            if idx == 0 and not was_none and uid is None:
                continue    # initial step
            sure = [ev[u] for u in pending if ev[u]['exit'] is not None
                    and ev[u]['exit'] < e_enter]
            if uid is None:
                blockers = [w for w in sure if w['hi'] <= T]
                if blockers:
                    viol.append(V('due-event-not-consumed', time=T,
                                  due=[(w['uid'], w['due']) for w in blockers][:5],
                                  granularity=gran, queue_overlapped_execute=any_overlap))
                    break
                continue
            if uid not in pending:
                viol.append(V('event-duplicated' if uid in consumed else 'unknown-event-consumed',
                              uid=uid, granularity=gran, queue_overlapped_execute=any_overlap))
                break
            u = ev[uid]
            if u['due'] > T:
                viol.append(V('consumed-before-due', uid=uid, due=u['due'], time=T,
                              granularity=gran))
                break
            ahead = [w for w in sure if w is not u and (
                w['hi'] < u['due'] or (w['due'] == w['hi'] == u['due'] == u['hi']
                                       and u['enter'] > w['exit']))]
            if ahead:
                viol.append(V('queue-order', consumed=uid,
                              overtaken=[(w['uid'], w['due']) for w in ahead][:5], time=T,
                              granularity=gran, queue_overlapped_execute=any_overlap))
                break
            pending.remove(uid)
            consumed.append(uid)
    if not viol:
        if sorted(pending) != sorted(obs['pending']):
            viol.append(V('event-lost', model_pending=sorted(pending),
                          actually_pending=sorted(obs['pending']), granularity=gran,
                          queue_overlapped_execute=any_overlap))
    # ---- final chart ends the runner by itself
    if obs['final'] and names.count('after_run') != 1:
        viol.append(V('final-without-after_run'))
    return finish(case, obs, viol, labels)


def finish(case, obs, viol, labels):
    from ..cli import sha
    log = obs['log']
    # non-trivial: a client operation inside a runner cycle
    inside = False
    nontrivial = False
    for x in log:
        if x[0] == 'before_execute':
            inside = True
        elif x[0] == 'after_execute':
            inside = False
        elif inside and x[0] in ('queue-enter', 'op-call'):
            nontrivial = True
    sched = obs['sched']
    labels['thread switches'] = sched.switches
    if obs.get('final'):
        labels['runs ending in a final configuration'] = 1
    keys = [sha([case['scripts'], case['prequeue'], case['choices'][:sched.ci], case.get('seed'),
                 case['line']])] \
        if nontrivial else []
    return {'violations': viol, 'labels': labels, 'keys': keys,
            'sample': {'scripts': case['scripts'], 'line_level': case['line'],
                       'choices_used': sched.ci, 'log': [list(map(str, x)) for x in log[:14]]}}
