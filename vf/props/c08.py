"""C08 Contracts are checked at the documented points; failures raise the right error."""
from hypothesis import strategies as st

from .. import gen, probes
from ..run import Drive
from ..spec import Tree

PROP = 'C08'
LEVEL = 'fault_enumeration'
BUDGET = {'quick': 4800, 'thorough': 32000}
RULE = ('cases = well-formed chart with 0-2 preconditions/postconditions/invariants on ~50% of '
        'its states and transitions (probe conditions logging their evaluation and __old__.v) + '
        'history of 6-15 ops. Part 1: the executed-code log of every step must equal the sequence '
        'reconstructed from the returned MacroStep by the documented rule (exit code then state '
        'postconditions; transition preconditions, invariants, action, postconditions, '
        'invariants; state preconditions then entry code; invariants of every active state at the '
        'end of every step, also None steps), each once, with __old__.v = v before the entry code '
        '/ the action. Part 2 (fault enumeration): for the k-th condition evaluation of the run '
        '(quick: <=10 sampled k per run; thorough: every k) the run is repeated with that '
        'evaluation false: exactly Precondition/Postcondition/InvariantError must be raised by '
        'that execute_once, carrying that state/transition and condition, and the log must equal '
        'the fault-free log truncated right after occurrence k; conditions also record sent(x) / '
        'received(x) (in transition contracts received(x) must equal "x is the name of the consumed '
        'event", elsewhere it must at least be false for every other x, also for x that is a part '
        'of that name); when the failing occurrence is an end-of-step state invariant the run is '
        'continued and must go on exactly like the fault-free run. Non-trivial = a fault that is '
        'neither the first nor the last evaluation of its step; distinct = sha1(chart, history, k).')
ASSUMPTIONS = ['the order of state invariants among different active states is not constrained',
               'idle()/after() are not used in these contracts (C13 covers them)']
RECEIVED_PROBED = ('e0', 'e1', 'e2', 'e', '2', '')
EXC = {'pre': 'PreconditionError', 'post': 'PostconditionError', 'inv': 'InvariantError'}
MIX = (('sibling', 30), ('other', 15), ('orthin', 15), ('anc', 15), ('desc', 5), ('hist', 10),
       ('internal', 10))


def strategy(tier):
    big = tier == 'thorough'

    @st.composite
    def cases(draw):
        spec = draw(gen.charts(max_states=10, mix=MIX, p_sends=0.15, max_tr=10))
        spec = draw(gen.with_contracts(spec))
        ops = draw(gen.histories(spec, 6, 15, p_all=0.4, p_none=0.2))
        ks = None if big else draw(st.lists(st.floats(0, 0.999), min_size=4, max_size=10))
        # counter 'w': fragments only mutate the context in place (no name is ever rebound)
        return {'spec': spec, 'ops': ops, 'ks': ks,
                # counter 'o': an attribute of an ordinary object held in the context
                'counter': draw(st.sampled_from(['v', 'v', 'w', 'o', 'vm'])),
                'shadow': draw(st.booleans())}
    return cases()


def cond_table(spec):
    tab = {}
    for s in spec['states']:
        for kind in ('pre', 'post', 'inv'):
            for idx, c in enumerate(s.get('c_' + kind) or []):
                tab[c] = ('state', s['name'], kind, s[kind][idx])
    for t in spec['transitions']:
        for kind in ('pre', 'post', 'inv'):
            for idx, c in enumerate(t.get('c_' + kind) or []):
                tab[c] = ('transition', t['id'], kind, t[kind][idx])
    return tab


def run(spec, ops, fail_at, shadow=False, go_on=False):
    """returns (records, raised) ; stops at the first ContractError.  With shadow=True a second
    interpreter over the same Statechart object (its own context, all conditions true) is stepped
    in between; it must not influence the first one."""
    from sismic.exceptions import ContractError
    box = {'n': 0}

    def chk(cid, old, sr=None):
        box['n'] += 1
        box['log'].append(('c', cid, old, box['n'], sr))
        return box['n'] != fail_at
    d = Drive(spec, ignore_contract=False, ctx_extra={'chk': chk})
    box['log'] = d.ctx['log']
    sh = None
    if shadow:
        sh = Drive(spec, sc=d.sc, ignore_contract=False, ctx_extra={'chk': lambda cid, old, sr=None: True})
    recs = []
    first = None
    ntr = len(spec['transitions'])
    for k, op in enumerate(ops):
        if sh is not None:
            try:
                if k % 3 == 0:
                    sh.queue('e%d' % (k % 2), uid='sh%d' % k)
                sh.step([True] * ntr)
            except Exception:
                pass
        if op[0] == 'q':
            d.queue(op[1], delay=op[2], mode=op[3], uid=op[4])
        elif op[0] == 'adv':
            d.advance(op[1])
        else:
            rec = d.step(op[1])
            recs.append(rec)
            if rec['exc'] and isinstance(rec['exc_obj'], ContractError):
                if go_on and first is None:
                    first = (len(recs), rec)     # keep going: see oracle, continuation
                    continue
                return recs, first[1] if first else rec, d
            if rec['exc'] and rec['exc'] not in ('NonDeterminismError',
                                                 'ConflictingTransitionsError'):
                return recs, first[1] if first else rec, d
    return recs, first[1] if first else None, d


def expected_sequence(spec, tree, rec, last_en, viol, i):
    """documented evaluation order for one returned step; returns (fixed part, invariant blocks)
    entries: ('ex'|'en'|'tr', id) or ('c', cid, expected_old)"""
    by_name = tree.states
    by_tid = {t['id']: t for t in spec['transitions']}
    seq = []
    res = rec['result']
    logv = {}
    for x in rec['log']:
        if x[0] in ('en', 'tr'):
            logv[(x[0], x[1])] = x[2]
    en_v = dict(last_en)
    for m in (res['micro'] if res else []):
        for s in m['exited']:
            st_ = by_name[s]
            seq.append(('ex', st_['sid']))
            for c in st_.get('c_post') or []:
                seq.append(('c', c, en_v.get(s)))
        if m['has_t']:
            t = by_tid[m['t']]
            old = logv.get(('tr', t['id']))
            old = None if old is None else old - 1
            for c in t.get('c_pre') or []:
                seq.append(('c', c, None))
            for c in t.get('c_inv') or []:
                seq.append(('c', c, old))
            seq.append(('tr', t['id']))
            for c in t.get('c_post') or []:
                seq.append(('c', c, old))
            for c in t.get('c_inv') or []:
                seq.append(('c', c, old))
        for s in m['entered']:
            st_ = by_name[s]
            for c in st_.get('c_pre') or []:
                seq.append(('c', c, None))
            seq.append(('en', st_['sid']))
            v = logv.get(('en', st_['sid']))
            # a state may be entered several times in one step: the log is scanned in order below
            en_v[s] = None if v is None else v - 1
    blocks = {}
    for s in rec['config_after']:
        st_ = by_name[s]
        if st_.get('c_inv'):
            blocks[s] = [('c', c, None) for c in st_['c_inv']]
    return seq, blocks


def check_fault_free(spec, tree, recs):
    """part 1; returns (violations, list of (step index, position in step, n in step, cid))"""
    viol = []
    evals = []
    last_en = {}     # state name -> v just before its latest entry code
    name_of_sid = {s['sid']: s['name'] for s in spec['states']}
    by_tid = {t['id']: t for t in spec['transitions']}
    for i, rec in enumerate(recs):
        if rec['exc']:
            if rec['log']:
                viol.append({'prop': PROP, 'kind': 'code-ran-in-rejected-step', 'step': i,
                             'detail': {'exc': rec['exc'], 'log': rec['log']}})
            continue
        res = rec['result']
        # walk the log, tracking entry values exactly (handles re-entry within a step)
        log = rec['log']
        pos = 0
        exp = []

        def take(kind, ident):
            nonlocal pos
            if pos < len(log) and log[pos][0] == kind and log[pos][1] == ident:
                pos += 1
                return log[pos - 1]
            return None

        ok = True

        def need(kind, ident, old='skip'):
            nonlocal ok
            exp.append([kind, ident] + ([] if old == 'skip' else [old]))
            if not ok:
                return None
            r = take(kind, ident)
            if r is None:
                ok = False
                return None
            if kind == 'c' and old != 'skip' and r[2] != old:
                viol.append({'prop': PROP, 'kind': 'old-value', 'step': i,
                             'detail': {'cid': ident, 'saw': r[2], 'expected': old}})
            return r

        for m in (res['micro'] if res else []):
            for s in m['exited']:
                st_ = tree.states[s]
                need('ex', st_['sid'])
                for c in st_.get('c_post') or []:
                    need('c', c, last_en.get(s))
            if m['has_t']:
                t = by_tid[m['t']]
                # v before the action == current v (conditions do not bump v)
                old = None
                for c in t.get('c_pre') or []:
                    need('c', c, None)
                # find the action record to know v
                for x in log[pos:]:
                    if x[0] == 'tr' and x[1] == t['id']:
                        old = x[2] - 1
                        break
                for c in t.get('c_inv') or []:
                    need('c', c, old)
                need('tr', t['id'])
                for c in t.get('c_post') or []:
                    need('c', c, old)
                for c in t.get('c_inv') or []:
                    need('c', c, old)
            for s in m['entered']:
                st_ = tree.states[s]
                for c in st_.get('c_pre') or []:
                    need('c', c, None)
                r = need('en', st_['sid'])
                if r is not None:
                    last_en[s] = r[2] - 1
        # invariants of active states, any order of states
        blocks = {s: list(tree.states[s].get('c_inv') or []) for s in rec['config_after']
                  if tree.states[s].get('c_inv')}
        first = {b[0]: s for s, b in blocks.items()}
        while ok and pos < len(log) and blocks:
            x = log[pos]
            s = first.get(x[1]) if x[0] == 'c' else None
            if s is None or s not in blocks:
                ok = False
                break
            for c in blocks.pop(s):
                need('c', c, last_en.get(s))
        if ok and blocks:
            ok = False
        if ok and pos != len(log):
            ok = False
        if not ok:
            viol.append({'prop': PROP, 'kind': 'evaluation-order', 'step': i,
                         'detail': {'log': [list(x[:3]) for x in log], 'expected_prefix': exp,
                                    'missing_invariant_blocks': sorted(blocks),
                                    'micro': [[m['t'], m['exited'], m['entered']]
                                              for m in (res['micro'] if res else [])]}})
            break
        cs = [x for x in log if x[0] == 'c']
        # received(x) inside a condition: true iff x is the name of the event this step consumes
        ename = res['event']['name'] if res and res['event'] else None
        want_recv = tuple(ename == nm for nm in RECEIVED_PROBED)
        owner = cond_table(spec)
        for x in cs:
            if len(x) <= 4 or x[4] is None:
                continue
            saw = tuple(x[4][3:])
            # conditions of the transitions see the consumed event; conditions of states entered
            # by a later (event-less) stabilisation micro step do not: there only "never true
            # for another name" is demanded
            exact = owner[x[1]][0] == 'transition'
            if (exact and saw != want_recv) or any(a and not b for a, b in zip(saw, want_recv)):
                viol.append({'prop': PROP, 'kind': 'received-wrong-in-condition', 'step': i,
                             'detail': {'cid': x[1], 'consumed_event': ename,
                                        'probed': list(RECEIVED_PROBED),
                                        'saw': list(x[4][3:]), 'expected': list(want_recv)}})
                break
        for j, x in enumerate(cs):
            evals.append((i, j, len(cs), x[1], x[3]))
    return viol, evals


def oracle(case):
    from ..cli import sha
    spec = probes.instrument(case['spec'], contracts=True, cond_fn=True,
                             counter=case.get('counter', 'v'))
    tree = Tree(spec)
    tab = cond_table(spec)
    labels, keys, viol = {}, [], []
    recs, raised, d = run(spec, case['ops'], fail_at=0, shadow=case.get('shadow', False))
    if case.get('shadow'):
        labels['runs with a shadow interpreter on the same statechart'] = 1
    if raised is not None:
        viol.append({'prop': PROP, 'kind': 'raised-without-fault', 'step': len(recs) - 1,
                     'detail': {'exc': raised['exc'], 'msg': str(raised['exc_obj'])[:300]}})
        return {'violations': viol, 'labels': labels, 'keys': keys}
    v1, evals = check_fault_free(spec, tree, recs)
    viol.extend(v1)
    N = len(evals)
    labels['condition evaluations (fault-free)'] = N
    labels['runs'] = 1
    if viol or N == 0:
        return {'violations': viol, 'labels': labels, 'keys': keys}
    if case.get('ks') is None:
        ks = list(range(1, N + 1))
    else:
        ks = sorted(set(1 + int(f * N) for f in case['ks']))
    ref_log = [x for r in recs for x in r['log']]
    ref_exc = [r['exc'] for r in recs]
    h = sha([case['spec'], case['ops']])
    for k in ks:
        step_i, j, n_in_step, cid, n = evals[k - 1]
        assert n == k
        owner_kind, owner, ckind, code = tab[cid]
        # a failing invariant of an active state strikes at the very end of a macro step: the
        # step itself is complete, so the run is continued and must go on like the fault-free one
        go_on = owner_kind == 'state' and ckind == 'inv'
        recs2, raised2, d2 = run(spec, case['ops'], fail_at=k, shadow=case.get('shadow', False),
                                 go_on=go_on)
        tail2 = []
        if go_on and raised2 is not None:
            cutpos = next((q for q, r_ in enumerate(recs2) if r_ is raised2), len(recs2) - 1)
            tail2 = recs2[cutpos + 1:]
            recs2 = recs2[:cutpos + 1]
        labels['faults injected'] = labels.get('faults injected', 0) + 1
        labels['fault on %s %s' % (owner_kind, ckind)] = labels.get(
            'fault on %s %s' % (owner_kind, ckind), 0) + 1
        det = {'k': k, 'cid': cid, 'owner': [owner_kind, owner], 'cond_kind': ckind,
               'step_index': step_i}
        if raised2 is None:
            viol.append({'prop': PROP, 'kind': 'fault-not-raised', 'step': step_i, 'detail': det})
            break
        if len(recs2) - 1 != step_i or [r['exc'] for r in recs2[:-1]] != ref_exc[:step_i]:
            det['raised_at'] = len(recs2) - 1
            det['exc'] = raised2['exc']
            viol.append({'prop': PROP, 'kind': 'raised-at-wrong-step', 'step': step_i,
                         'detail': det})
            break
        if raised2['exc'] != EXC[ckind]:
            det['exc'] = raised2['exc']
            det['msg'] = str(raised2['exc_obj'])[:200] if raised2['exc'] not in EXC.values() else ''
            viol.append({'prop': PROP, 'kind': 'wrong-error-class', 'step': step_i, 'detail': det})
            break
        e = raised2['exc_obj']
        obj = e.obj
        if owner_kind == 'state':
            good = getattr(obj, 'name', None) == owner
        else:
            good = probes.tid_of(obj) == owner if hasattr(obj, 'action') else False
        if not good or e.condition != code:
            det['obj'] = repr(obj)
            det['condition'] = e.condition
            det['expected_condition'] = code
            viol.append({'prop': PROP, 'kind': 'wrong-error-payload', 'step': step_i,
                         'detail': det})
            break
        log2 = [x for r in recs2 for x in r['log']]
        cut = ref_log.index(next(x for x in ref_log if x[0] == 'c' and x[3] == k)) + 1
        if log2 != ref_log[:cut]:
            det['ran_after_failure'] = [list(x[:3]) for x in log2[cut:cut + 6]]
            det['prefix_equal'] = log2[:cut] == ref_log[:cut]
            viol.append({'prop': PROP, 'kind': 'code-ran-after-failure', 'step': step_i,
                         'detail': det})
            break
        if go_on:
            labels['continuations after an end-of-step invariant failure'] = labels.get(
                'continuations after an end-of-step invariant failure', 0) + 1

            def view(r_):
                return {'result': r_['result'], 'exc': r_['exc'], 'config': r_['config_after'],
                        'log': [list(x[:3]) + list(x[4:]) for x in r_['log']]}
            want = [view(r_) for r_ in recs[step_i + 1:]]
            got = [view(r_) for r_ in tail2]
            if got != want:
                q = next((q for q, (a_, b_) in enumerate(zip(got, want)) if a_ != b_),
                         min(len(got), len(want)))
                det['continuation_step'] = step_i + 1 + q
                if q < len(got) and q < len(want):
                    f = [k_ for k_ in got[q] if got[q][k_] != want[q][k_]]
                    det['fields'] = f
                    det['after_failure'] = {k_: got[q][k_] for k_ in f}
                    det['fault_free'] = {k_: want[q][k_] for k_ in f}
                viol.append({'prop': PROP, 'kind': 'run-differs-after-end-of-step-failure',
                             'step': step_i, 'detail': det})
                break
        if 0 < j < n_in_step - 1:
            keys.append(sha([h, k]))
    return {'violations': viol, 'labels': labels, 'keys': keys,
            'sample': {'spec': compact(case['spec']), 'n_ops': len(case['ops']),
                       'condition_evaluations': N, 'faults_tried': ks[:20]}}


def compact(spec):
    from ..core import compact_spec
    c = compact_spec(spec)
    c['contracts'] = {o.get('name', 't%s' % o.get('id')): [o.get('c_pre'), o.get('c_post'),
                                                           o.get('c_inv')]
                      for o in spec['states'] + spec['transitions']
                      if o.get('c_pre') or o.get('c_post') or o.get('c_inv')}
    return c
