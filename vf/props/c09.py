"""C09 Contract checking is transparent."""
import os

from hypothesis import strategies as st

from .. import gen, probes
from ..run import Drive, macro_sig, ev_sig
from ..spec import to_statechart

PROP = 'C09'
LEVEL = 'exploration'
BUDGET = {'quick': 7200, 'thorough': 96000}
RULE = ('cases = (a) generated well-formed chart with probe contracts (data-only conditions '
        'reading cv[cid], some reading __old__ or active()), table guards and after()/idle() '
        'guards, entry/exit/action code that records active(x) + history '
        'with clock advances, and a condition valuation cv (all true, or some false); (b) the '
        'shipped elevator_contract.yaml / microwave_with_contracts.yaml with generated event '
        'histories over their own alphabets (floors 0-9, waits). Interpreter A (contracts on, cv '
        'all true) and B (ignore_contract=True, cv as drawn) are fed the same history: if A raised '
        'no ContractError the macro steps, configurations, contexts, sent events and meta-events '
        'must be equal (in a third of the cases a user-defined evaluator records the calls of its '
        'entry/exit/action hooks, which must be equal too); in B no condition is evaluated and no '
        'ContractError is raised. '
        'Non-trivial = run with >=5 condition evaluations in A and >=1 transition fired; '
        'distinct = sha1(chart, history).')
ASSUMPTIONS = ['probe conditions append to the bookkeeping list `log`; entries of kind "c" are '
               'removed before contexts and logs are compared',
               'runs of shipped charts in which a contract fails are outside the quantifier '
               '(counted as excluded)']
MIX = (('sibling', 30), ('other', 15), ('orthin', 15), ('anc', 15), ('desc', 5), ('hist', 10),
       ('internal', 10))
SHIPPED = {'elevator': 'docs/examples/elevator/elevator_contract.yaml',
           'microwave': 'docs/examples/microwave/microwave_with_contracts.yaml'}
MICRO_EVENTS = ['door_opened', 'door_closed', 'item_placed', 'item_removed', 'timer_inc',
                'timer_dec', 'timer_reset', 'power_inc', 'power_dec', 'power_reset',
                'cooking_start', 'cooking_stop', 'timer_tick']


def strategy(tier):
    @st.composite
    def generated(draw):
        spec = draw(gen.charts(max_states=10, mix=MIX, p_sends=0.2, p_notify=0.1, max_tr=10))
        spec = draw(gen.with_contracts(spec, p=0.6))
        spec = draw(gen.with_time_guards(spec, p=0.25))
        names = [x['name'] for x in spec['states']]
        for o in spec['states'] + spec['transitions']:
            # some conditions and guards look at the live configuration through active()
            if draw(st.floats(0, 1)) < 0.3:
                o['c_active'] = draw(st.sampled_from(names))
            if draw(st.floats(0, 1)) < 0.3:
                o['c_time'] = True       # its conditions mention after() / idle()
            if 'id' in o and 'tguard' not in o and draw(st.floats(0, 1)) < 0.3:
                o['aguard'] = draw(st.sampled_from(names))
            # ... and so does some of the entry / exit / action code
            if draw(st.floats(0, 1)) < 0.35:
                line = "log.append(('A', active(%r), active(%r)))" % (
                    draw(st.sampled_from(names)), draw(st.sampled_from(names)))
                if 'id' in o:
                    o['extra'] = [line]
                else:
                    o['extra_exit' if draw(st.booleans()) else 'extra_entry'] = [line]
        ops = draw(gen.histories(spec, 6, 18, p_all=0.4, p_none=0.1, advances=True, delays=True))
        ncond = sum(len(o.get('c_' + k) or []) for o in spec['states'] + spec['transitions']
                    for k in ('pre', 'post', 'inv'))
        mode = draw(st.sampled_from(['true', 'true', 'some-false', 'all-false']))
        if mode == 'true':
            false = []
        elif mode == 'all-false':
            false = list(range(1, ncond + 1))
        else:
            false = draw(st.lists(st.integers(1, max(1, ncond)), max_size=4, unique=True))
        return {'kind': 'generated', 'spec': spec, 'ops': ops, 'false': false,
                'twin': draw(st.sampled_from([0, 0, 0, 1, 2, 3])),
                'tracing': draw(st.integers(0, 2)) == 0}

    @st.composite
    def shipped(draw):
        which = draw(st.sampled_from(['elevator', 'microwave']))
        ops = []
        if which == 'microwave' and draw(st.booleans()):
            # reach 'closed with item', where the timer/power/cooking transitions live
            ops += [['q', 'door_opened', {}], ['q', 'item_placed', {}], ['q', 'door_closed', {}],
                    ['run', 5]]
        for _ in range(draw(st.integers(4, 30))):
            k = draw(st.sampled_from(['q', 'q', 'q', 'adv', 'run', 'step']))
            if k == 'q':
                if which == 'elevator':
                    ops.append(['q', 'floorSelected', {'floor': draw(st.integers(0, 9))}])
                else:
                    ops.append(['q', draw(st.sampled_from(MICRO_EVENTS)), {}])
            elif k == 'adv':
                ops.append(['adv', draw(st.sampled_from([0.5, 1, 3, 5, 10, 12]))])
            elif k == 'run':
                ops.append(['run', draw(st.integers(1, 12))])
            else:
                ops.append(['run', 1])
        ops.append(['run', 10])
        return {'kind': 'shipped', 'chart': which, 'ops': ops}
    return st.one_of(generated(), generated(), generated(), shipped())


def clean_context(ctx):
    out = {}
    for k in sorted(ctx):
        v = ctx[k]
        if k in ('_cnt', 'glog', 'gv', 'cv', 'chk'):
            continue
        if k == 'log':
            v = [tuple(x) for x in v if x[0] != 'c']
        if callable(v):
            continue
        out[k] = repr(v)
    return out


def plain_micro(m):
    t = m.transition
    return {'t': None if t is None else [t.source, t.target, t.event, t.guard, t.action],
            'exited': list(m.exited_states), 'entered': list(m.entered_states),
            'sent': [ev_sig(e) for e in m.sent_events], 'event': ev_sig(m.event)}


def plain_sig(step):
    if step is None:
        return None
    return {'time': step.time, 'event': ev_sig(step.event),
            'micro': [plain_micro(m) for m in step.steps]}


def meta_recorder(lst):
    def listener(ev):
        lst.append((ev.name, repr(sorted((k, repr(v)) for k, v in ev.data.items()))))
    return listener


def tracing_evaluator(hooks):
    """PythonEvaluator whose code-execution hooks record that they were called (a user-defined
    evaluator may do anything there): the calls must not depend on contract checking"""
    from sismic.code import PythonEvaluator

    class Tracing(PythonEvaluator):
        def execute_action(self, transition, event=None):
            hooks.append(('action', transition.source, transition.target))
            return super().execute_action(transition, event)

        def execute_on_entry(self, state):
            hooks.append(('entry', state.name))
            return super().execute_on_entry(state)

        def execute_on_exit(self, state):
            hooks.append(('exit', state.name))
            return super().execute_on_exit(state)
    return Tracing


def run_generated(spec, ops, cv, ignore, hooks=None):
    from sismic.exceptions import ContractError
    d = Drive(spec, ignore_contract=ignore,
              evaluator_klass=tracing_evaluator(hooks) if hooks is not None else None)
    d.ctx['cv'].update(cv)
    meta = []
    d.interp.attach(meta_recorder(meta))
    sig = []
    raised = None
    for op in ops:
        if op[0] == 'q':
            d.queue(op[1], delay=op[2], mode=op[3], uid=op[4])
        elif op[0] == 'adv':
            d.advance(op[1])
        else:
            rec = d.step(op[1])
            sig.append({'result': rec['result'], 'exc': rec['exc'], 'config': rec['config_after'],
                        'time': rec['time_after'], 'context': clean_context(d.ctx)})
            if rec['exc'] and rec['exc'] not in ('NonDeterminismError',
                                                 'ConflictingTransitionsError'):
                raised = rec
                break
    ncond = sum(1 for x in d.ctx['log'] if x[0] == 'c')
    return sig, meta, raised, ncond


def oracle_generated(case):
    from ..cli import sha
    spec = probes.instrument(case['spec'], contracts=True)
    if case.get('twin'):
        # a guard and a (true) condition whose texts differ only by blanks inside a string
        # literal / by the case of a literal: different expressions with different values
        ga, ca = [("len('x  y') == 3", "len('x y') == 3"),
                  ("'ab' == 'Ab'", "'ab' == 'ab'"),
                  ("len('x y') == 3 ", "len('x y') == 3")][case['twin'] - 1]
        cand = [t for t in spec['transitions'] if not t.get('tguard')]
        owners = [x for x in spec['states'] if x['kind'] not in ('shallow', 'deep')]
        if cand and owners:
            t_ = cand[len(cand) // 2]
            t_['guard'] = ga
            for x in (owners[0], owners[len(owners) // 2]):
                x['inv'] = list(x.get('inv') or []) + [ca]
                x['pre'] = list(x.get('pre') or []) + [ca]
    ncond = sum(len(o.get('c_' + k) or []) for o in spec['states'] + spec['transitions']
                for k in ('pre', 'post', 'inv'))
    cv_true = {c: True for c in range(1, ncond + 1)}
    cv_b = dict(cv_true)
    for c in case['false']:
        if c in cv_b:
            cv_b[c] = False
    viol, labels, keys = [], {}, []
    hooksA, hooksB = ([], []) if case.get('tracing') else (None, None)
    if case.get('tracing'):
        for t in spec['transitions']:
            if t['id'] % 3 == 0:
                t['action'] = None        # transitions without action are processed as well
    sigA, metaA, raisedA, nA = run_generated(spec, case['ops'], cv_true, False, hooksA)
    sigB, metaB, raisedB, nB = run_generated(spec, case['ops'], cv_b, True, hooksB)
    labels['generated runs'] = 1
    if nB:
        viol.append({'prop': PROP, 'kind': 'condition-evaluated-while-ignored', 'step': None,
                     'detail': {'evaluations': nB}})
    if raisedB is not None:
        viol.append({'prop': PROP, 'kind': 'raised-while-ignored', 'step': len(sigB) - 1,
                     'detail': {'exc': raisedB['exc'], 'msg': str(raisedB['exc_obj'])[:300]}})
    if raisedA is not None:
        viol.append({'prop': PROP, 'kind': 'raised-with-all-conditions-true',
                     'step': len(sigA) - 1,
                     'detail': {'exc': raisedA['exc'], 'msg': str(raisedA['exc_obj'])[:300]}})
    if not viol:
        for i, (a, b) in enumerate(zip(sigA, sigB)):
            if a != b:
                f = [k for k in a if a[k] != b[k]]
                viol.append({'prop': PROP, 'kind': 'contract-checking-changes-run', 'step': i,
                             'detail': {'fields': f, 'with': {k: a[k] for k in f},
                                        'without': {k: b[k] for k in f}}})
                break
        if not viol and metaA != metaB:
            j = next((j for j, (x, y) in enumerate(zip(metaA, metaB)) if x != y),
                     min(len(metaA), len(metaB)))
            viol.append({'prop': PROP, 'kind': 'contract-checking-changes-meta-events',
                         'step': None, 'detail': {'index': j, 'with': metaA[j:j + 3],
                                                  'without': metaB[j:j + 3]}})
    if not viol and hooksA is not None:
        labels['runs with a user-defined (tracing) evaluator'] = 1
        if hooksA != hooksB:
            j = next((j for j, (x, y) in enumerate(zip(hooksA, hooksB)) if x != y),
                     min(len(hooksA), len(hooksB)))
            viol.append({'prop': PROP, 'kind': 'contract-checking-changes-evaluator-calls',
                         'step': None, 'detail': {'index': j, 'with': hooksA[j:j + 3],
                                                  'without': hooksB[j:j + 3]}})
    fired = sum(1 for s in sigA if s['result'] for m in s['result']['micro'] if m['has_t'])
    if nA >= 5 and fired >= 1:
        keys.append(sha([case['spec'], case['ops']]))
    if case['false']:
        labels['B run with false conditions'] = 1
    if any('tguard' in t for t in case['spec']['transitions']):
        labels['chart with after/idle guards'] = 1
    return {'violations': viol, 'labels': labels, 'keys': keys,
            'sample': {'kind': 'generated', 'n_states': len(case['spec']['states']),
                       'conditions': ncond, 'evaluations_with_contracts': nA,
                       'transitions_fired': fired, 'false': case['false'],
                       'ops': case['ops'][:8]}}


def load_shipped(which):
    from sismic.io import import_from_yaml
    src = os.environ.get('SISMIC_SRC') or '/repo'
    sc = import_from_yaml(filepath=os.path.join(src, SHIPPED[which]))
    # count condition evaluations: wrap every condition (public lists) with a counting probe
    for o in [sc.state_for(n) for n in sc.states] + sc.transitions:
        for attr in ('preconditions', 'postconditions', 'invariants'):
            lst = getattr(o, attr)
            lst[:] = ['(_cnt.append(1) or (%s))' % c for c in lst]
    return sc


def run_shipped(which, ops, ignore):
    from sismic.interpreter import Interpreter
    from sismic.exceptions import ContractError, ExecutionError
    sc = load_shipped(which)
    interp = Interpreter(sc, ignore_contract=ignore, initial_context={'_cnt': []})
    meta = []
    interp.attach(meta_recorder(meta))
    sig = []
    failed = None
    try:
        for op in ops:
            if op[0] == 'q':
                interp.queue(op[1], **op[2])
            elif op[0] == 'adv':
                interp.clock.time += op[1]
            else:
                for _ in range(op[1]):
                    try:
                        step = interp.execute_once()
                    except ExecutionError as e:
                        # the shipped elevator chart is non-deterministic for some histories
                        sig.append({'step': None, 'exc': type(e).__name__,
                                    'config': list(interp.configuration),
                                    'context': clean_context(interp.context)})
                        break
                    sig.append({'step': plain_sig(step), 'config': list(interp.configuration),
                                'context': clean_context(interp.context)})
                    if step is None:
                        break
    except ContractError as e:
        failed = e
    return sig, meta, failed, len(interp.context['_cnt'])


def oracle_shipped(case):
    from ..cli import sha
    viol, labels, keys = [], {}, []
    sigA, metaA, failedA, nA = run_shipped(case['chart'], case['ops'], False)
    sigB, metaB, failedB, nB = run_shipped(case['chart'], case['ops'], True)
    labels['shipped runs (%s)' % case['chart']] = 1
    if nB:
        viol.append({'prop': PROP, 'kind': 'condition-evaluated-while-ignored', 'step': None,
                     'detail': {'evaluations': nB, 'chart': case['chart']}})
    if failedB is not None:
        viol.append({'prop': PROP, 'kind': 'raised-while-ignored', 'step': len(sigB),
                     'detail': {'exc': type(failedB).__name__, 'chart': case['chart']}})
    if failedA is not None:
        labels['shipped runs excluded: a contract failed'] = 1
        n = len(sigA)
        sigB, metaB = sigB[:n], None
    if not viol:
        for i, (a, b) in enumerate(zip(sigA, sigB)):
            if a != b:
                f = [k for k in a if a[k] != b[k]]
                viol.append({'prop': PROP, 'kind': 'contract-checking-changes-run', 'step': i,
                             'detail': {'chart': case['chart'], 'fields': f,
                                        'with': {k: a[k] for k in f},
                                        'without': {k: b[k] for k in f}}})
                break
        if not viol and metaB is not None and metaA != metaB:
            viol.append({'prop': PROP, 'kind': 'contract-checking-changes-meta-events',
                         'step': None, 'detail': {'chart': case['chart']}})
    fired = sum(1 for s in sigA if s['step'] for m in s['step']['micro'] if m['t'])
    if failedA is None and nA >= 5 and fired >= 1:
        keys.append(sha([case['chart'], case['ops']]))
    return {'violations': viol, 'labels': labels, 'keys': keys,
            'sample': {'kind': 'shipped', 'chart': case['chart'], 'ops': case['ops'][:10],
                       'evaluations_with_contracts': nA, 'transitions_fired': fired}}


def oracle(case):
    if case['kind'] == 'shipped':
        return oracle_shipped(case)
    return oracle_generated(case)
