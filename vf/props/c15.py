"""C15 Bound statecharts: sent events reach every bound target once, in order."""
from hypothesis import strategies as st

from .. import gen, probes, core
from ..run import Drive, sends_from_log

PROP = 'C15'
LEVEL = 'exploration'
BUDGET = {'quick': 7200, 'thorough': 96000}
RULE = ('cases = 2-4 interpreters over small generated charts whose fragments send 0-2 events '
        '(with parameters and delays) and notify, plus 2 recording callables, driven by an '
        'operation list over bind(i->j), bind(i->callable), detach, queue, advance, step '
        '(cycles, self-binding and double binding allowed). A model of the binding table and one '
        'queue model per interpreter predict: the events delivered to callables during each step '
        '(event-major, binding order, plain Event instances with equal name and data, never '
        'notify meta-events), the external events forwarded to bound interpreters (due = target '
        'time + delay) through every later consumed event, the sender keeping its own internal '
        'event; a final drain checks every delivery was consumed exactly once and nothing else. '
        'Non-trivial = a step sending >=2 events with >=2 bound targets, a send after a detach, '
        'or a cyclic topology that forwarded an event; distinct = sha1(case).')
ASSUMPTIONS = ['delivery to a bound interpreter is observed through its later consumption '
               '(queue model), delivery to callables directly',
               'C01/C03/C05 oracles are applied to every step of every interpreter']


def strategy(tier):
    @st.composite
    def cases(draw):
        n = draw(st.integers(2, 4))
        specs = []
        for i in range(n):
            spec = draw(gen.charts(max_states=5, max_tr=6, min_tr=2, p_sends=0.5, p_notify=0.2,
                                   send_delays=True, p_hist=0.1, root_final=0.1, n_events=2,
                                   p_eventless=0.1))
            for o in spec['states']:
                for key in ('sends_entry', 'sends_exit'):
                    for s in o.get(key) or []:
                        s['uid_base'] = (i + 1) * 1000000
            for t in spec['transitions']:
                for s in t.get('sends') or []:
                    s['uid_base'] = (i + 1) * 1000000
            specs.append(spec)
        ops = [['step', i, [True] * len(specs[i]['transitions'])] for i in range(n)]
        nb = draw(st.integers(1, 5))
        for _ in range(nb):
            tgt = draw(st.one_of(st.tuples(st.just('i'), st.integers(0, n - 1)),
                                 st.tuples(st.just('c'), st.integers(0, 1))))
            ops.append(['bind', draw(st.integers(0, n - 1)), list(tgt)])
        for k in range(draw(st.integers(6, 30))):
            kind = draw(st.sampled_from(['q', 'q', 'q', 'step', 'step', 'step', 'step', 'adv',
                                         'bind', 'detach']))
            i = draw(st.integers(0, n - 1))
            if kind == 'q':
                d = draw(st.sampled_from([None, None, 0, 0.25, 1]))
                ops.append(['q', i, draw(st.sampled_from(['e0', 'e1'])), d, 'x%d' % len(ops)])
            elif kind == 'step':
                ops.append(['step', i, draw(gen.gvs(len(specs[i]['transitions']), 0.5, 0.05))])
            elif kind == 'adv':
                ops.append(['adv', i, draw(st.sampled_from([0.25, 0.5, 1, 2]))])
            elif kind == 'bind':
                tgt = draw(st.one_of(st.tuples(st.just('i'), st.integers(0, n - 1)),
                                     st.tuples(st.just('c'), st.integers(0, 1))))
                ops.append(['bind', i, list(tgt)])
            else:
                ops.append(['detach', i, draw(st.integers(0, 5))])
                if draw(st.integers(0, 3)) == 0:
                    # ... and once more with a listener that is no longer (or never was) attached
                    # to this sender: whatever detach() answers, the live bindings stay
                    ops.append(['detach_stale', i, draw(st.integers(0, 5))])
        # nouid: anonymous events with one delay value, so that distinct events can be equal
        return {'specs': specs, 'ops': ops, 'share': draw(st.floats(0, 1)) < 0.3,
                'nouid': draw(st.integers(0, 3)) == 0,
                'notify_names': draw(st.sampled_from([0, 0, 1, 2]))}
    return cases()


def oracle(case):
    from ..cli import sha
    from sismic.model import Event, InternalEvent
    if case.get('notify_names'):
        # user meta-events whose names are words or fragments of the library's own meta-event
        # names ('event sent', ...): they are still never forwarded
        import copy
        case = copy.deepcopy(case)
        ren = {'n0': 'sent', 'n1': 'e'} if case['notify_names'] == 1 else {'n0': 'event', 'n1': ''}
        for sp in case['specs']:
            for o in sp['states'] + sp['transitions']:
                for key in ('sends', 'sends_entry', 'sends_exit'):
                    for s_ in o.get(key) or []:
                        if s_.get('kind') == 'notify':
                            s_['name'] = ren.get(s_['name'], s_['name'])
    if case.get('nouid'):
        import copy
        case = copy.deepcopy(case)
        for sp in case['specs']:
            for o in sp['states'] + sp['transitions']:
                for key in ('sends', 'sends_entry', 'sends_exit'):
                    for s_ in o.get(key) or []:
                        if s_.get('kind', 'send') == 'send':
                            s_['nouid'] = True
                            if s_.get('delay') is not None:
                                s_['delay'] = 1
        case['ops'] = [[op[0], op[1], op[2], None if op[3] is None else 1, None]
                       if op[0] == 'q' else op for op in case['ops']]
    specs = [probes.instrument(s) for s in case['specs']]
    n = len(specs)
    if case.get('share') and n >= 2:
        # the last interpreter runs the very Statechart object of the first one
        specs[-1] = specs[0]
    drives = [Drive(s) for s in specs]
    if case.get('share') and n >= 2:
        drives[-1] = Drive(specs[0], sc=drives[0].sc)
    mems = [{} for _ in range(n)]
    states = [{} for _ in range(n)]
    info = core.Info()
    table = [[] for _ in range(n)]       # per sender: list of [listener object, target]
    heard = []                           # deliveries to callables, global order
    stale = []                           # listeners that were detached

    def make_callable(k):
        def fn(ev):
            heard.append({'callable': k, 'cls': type(ev).__name__, 'name': ev.name,
                          'data': {x: ev.data[x] for x in sorted(ev.data)},
                          'plain': type(ev) is Event})
            if k == 0:
                # a receiver may do what it wants with its copy: nobody else may notice
                ev.data['tampered'] = True
        if k == 1:
            # a callable object that happens to have an attribute named `queue` (a mailbox):
            # it is bound as a callable, like any other
            class Mailbox:
                def __init__(self):
                    self.queue = []

                def __call__(self, ev):
                    fn(ev)
            return Mailbox()
        return fn
    callables = [make_callable(0), make_callable(1)]
    viol, labels = [], {}
    detached_from = set()
    nontrivial = False

    def has_cycle():
        g = {i: set(t[1] for _, t in table[i] if t[0] == 'i') for i in range(n)}
        for s in range(n):
            seen, todo = set(), list(g[s])
            while todo:
                x = todo.pop()
                if x == s:
                    return True
                if x not in seen:
                    seen.add(x)
                    todo.extend(g[x])
        return False

    for idx, op in enumerate(case['ops']):
        k, i = op[0], op[1]
        d = drives[i]
        if k == 'bind':
            tgt = op[2]
            target = drives[tgt[1]].interp if tgt[0] == 'i' else callables[tgt[1]]
            listener = d.interp.bind(target)
            table[i].append([listener, tgt])
            labels['bind to ' + ('interpreter' if tgt[0] == 'i' else 'callable')] = labels.get(
                'bind to ' + ('interpreter' if tgt[0] == 'i' else 'callable'), 0) + 1
        elif k == 'detach_stale':
            pool = stale if op[2] % 2 == 0 else [l_ for j_ in range(n) if j_ != i
                                                 for l_, _ in table[j_]]
            if pool:
                try:
                    d.interp.detach(pool[op[2] % len(pool)])
                except Exception:
                    pass
                labels['detach of a listener that is not attached'] = labels.get(
                    'detach of a listener that is not attached', 0) + 1
        elif k == 'detach':
            if table[i]:
                j = op[2] % len(table[i])
                listener, tgt = table[i].pop(j)
                d.interp.detach(listener)
                stale.append(listener)
                detached_from.add(i)
                labels['detach'] = labels.get('detach', 0) + 1
        elif k == 'q':
            d.queue(op[2], delay=op[3], uid=op[4])
        elif k == 'adv':
            d.advance(op[2])
        else:
            h0 = len(heard)
            gv = list(op[2])
            ntr = len(d.spec['transitions'])
            gv = (gv + [True] * ntr)[:ntr]      # (a shared chart has another number of guards)
            rec = d.step(gv)
            out = []
            r = core.check_step(d, rec, idx, out, info, mems[i], states[i])
            if out:
                for v in out:
                    v['detail']['interpreter'] = i
                    v['prop'] = PROP
                    v['props'] = [PROP]
                viol.extend(out)
                break
            if r == 'abort':
                break
            cons = rec['result']['event'] if rec['result'] else None
            if cons is not None and 'tampered' in cons['data']:
                viol.append({'prop': PROP, 'kind': 'delivered-copy-shared-with-another-party',
                             'step': idx, 'detail': {'interpreter': i, 'consumed': cons}})
                break
            sent = [e for e in sends_from_log(d.by, rec['log']) if e['cls'] == 'InternalEvent']
            # what MacroStep says was sent (internal events) must be what was delivered
            claimed = [e for m in (rec['result']['micro'] if rec['result'] else [])
                       for e in m['sent'] if e['cls'] == 'InternalEvent']
            if [(e['name'], e['data']) for e in claimed] != [(e['name'], e['data']) for e in sent]:
                viol.append({'prop': PROP, 'kind': 'macrostep-sent-events-differ-from-sent',
                             'step': idx, 'detail': {'claimed': claimed, 'sent': sent}})
                break
            expect = []
            for e in sent:
                for listener, tgt in table[i]:
                    if tgt[0] == 'c':
                        expect.append({'callable': tgt[1], 'cls': 'Event', 'name': e['name'],
                                       'data': e['data'], 'plain': True})
                    else:
                        j = tgt[1]
                        dj = drives[j]
                        dj.qm.push('ext', dj.interp.time + e['data'].get('delay', 0),
                                   e['data'].get('uid'), e['name'])
                        labels['events forwarded to interpreters'] = labels.get(
                            'events forwarded to interpreters', 0) + 1
                        if has_cycle():
                            nontrivial = True
                            labels['forwarded within a cyclic topology'] = 1
            got = heard[h0:]
            if got != expect:
                viol.append({'prop': PROP, 'kind': 'deliveries-to-callables-differ', 'step': idx,
                             'detail': {'interpreter': i, 'delivered': got[:8],
                                        'expected': expect[:8],
                                        'bindings': [t for _, t in table[i]]}})
                break
            if expect:
                labels['events delivered to callables'] = labels.get(
                    'events delivered to callables', 0) + len(expect)
            if len(sent) >= 2 and len(table[i]) >= 2:
                nontrivial = True
                labels['step sending >=2 events to >=2 targets'] = labels.get(
                    'step sending >=2 events to >=2 targets', 0) + 1
            if sent and i in detached_from:
                nontrivial = True
                labels['send after a detach'] = labels.get('send after a detach', 0) + 1
    if not viol:
        # drain every interpreter: everything delivered is consumed exactly once, nothing else
        for i, d in enumerate(drives):
            if not d.started:
                continue
            out = []
            core.run_epilogue(d, len(case['ops']), out, info, mems[i], states[i], [])
            # with self- or double-binding the same uid legitimately arrives several times; the
            # queue model already accounts for every copy
            out = [v for v in out if v['kind'] != 'event-consumed-twice']
            if out:
                for v in out:
                    v['detail']['interpreter'] = i
                    v['detail']['phase'] = 'drain'
                    v['prop'] = PROP
                    v['props'] = [PROP]
                viol.extend(out)
                break
    labels['cases'] = 1
    if case.get('nouid'):
        labels['cases with anonymous (possibly equal) events'] = 1
    keys = [sha(case)] if nontrivial else []
    return {'violations': viol, 'labels': labels, 'keys': keys,
            'sample': {'interpreters': n,
                       'ops': [o if o[0] != 'step' else ['step', o[1]] for o in case['ops'][:20]]}}
