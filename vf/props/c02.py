"""C02 The active configuration is always a legal, stable statechart configuration."""
from hypothesis import strategies as st
from .. import gen
from ..core import core_oracle

PROP = 'C02'
LEVEL = 'exploration'
BUDGET = {'quick': 9600, 'thorough': 128000}
RULE = ('cases = well-formed chart (DESIGN.md 2, <=12 states, targets biased to states nested in '
        'orthogonal regions and to history states) + history of 8-25 queue/advance/step ops with a '
        'fresh guard valuation per step; legality of the configuration is checked after every '
        'execute_once. Non-trivial = a macro step that enters (missing) children of an orthogonal '
        'state by default, replaces a history state, or empties the configuration on a root final '
        'state; distinct = sha1(chart, kind, state, configuration before).')
ASSUMPTIONS = ['guards are pure table look-ups set by the harness before each step',
               'SimulatedClock moved only by the harness; contracts off']
MIX = (('sibling', 20), ('other', 15), ('orthin', 25), ('anc', 10), ('desc', 5), ('hist', 15),
       ('internal', 10))


def strategy(tier):
    big = tier == 'thorough'

    @st.composite
    def cases(draw):
        spec = draw(gen.charts(max_states=16 if big else 12, mix=MIX, p_sends=0.15, send_delays=True,
                               p_aguard=0.15))
        ops = draw(gen.histories(spec, 8, 25, advances=True, delays=True))
        return {'spec': spec, 'ops': ops, 'faults': draw(gen.faults(ops))}
    return cases()


def oracle(case):
    return core_oracle(case, PROP)
