"""C03 Steps run to completion in documented order and the trace tells the truth."""
from hypothesis import strategies as st
from .. import gen
from ..core import core_oracle

PROP = 'C03'
LEVEL = 'exploration'
BUDGET = {'quick': 9600, 'thorough': 128000}
RULE = ('cases = well-formed chart with entry/exit/action logging probes (30% of fragments also '
        'send/notify) + history of 8-25 ops. Per returned MacroStep: executed-code log == '
        'exit/action/entry lists micro step by micro step, sent events == events sent by exactly '
        'those fragments, replayed configuration == actual; exit set == active states in scope, '
        'descendants before ancestors, orthogonal siblings in name order; entry path parents '
        'first; (T stab*)+ with a legal configuration before the next transition; transitions '
        'by decreasing source depth then name. Non-trivial = macro step with >=2 transitions or '
        '>=2 exits and >=2 entries; distinct = sha1(chart, configuration before, fired ids).')
ASSUMPTIONS = ['the order of cousins in different regions is not constrained (only siblings)',
               'contracts off; SimulatedClock moved only by the harness']
MIX = (('sibling', 20), ('other', 20), ('orthin', 20), ('anc', 15), ('desc', 5), ('hist', 10),
       ('internal', 10))


def strategy(tier):
    big = tier == 'thorough'

    @st.composite
    def cases(draw):
        spec = draw(gen.charts(max_states=16 if big else 12, mix=MIX, p_sends=0.3, p_aguard=0.15, p_notify=0.1,
                               send_delays=True, p_orth_root=0.4))
        ops = draw(gen.histories(spec, 8, 25, advances=True, delays=True, p_all=0.35))
        return {'spec': spec, 'ops': ops, 'faults': draw(gen.faults(ops))}
    return cases()


def oracle(case):
    return core_oracle(case, PROP)
