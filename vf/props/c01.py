"""C01 Transition selection follows the documented step semantics."""
from hypothesis import strategies as st
from .. import gen
from ..core import core_oracle

PROP = 'C01'
LEVEL = 'exploration'
BUDGET = {'quick': 12800, 'thorough': 256000}
RULE = ('cases = well-formed chart (DESIGN.md 2) with a table guard on every transition + history '
        'of 6-20 queue/advance/step ops, every step with a fresh guard valuation (p=0.2 all true, '
        'p=0.1 all false); internal events sent by actions, some with a delay. Per step the fired multiset, the '
        'consumed event, the None result and what every evaluated guard saw are compared with the '
        'reference selection rule. Non-trivial = a step in which >=2 transitions are enabled and '
        'differ in source depth, priority or eventless/evented class; distinct = sha1(chart, '
        'configuration, pending event name, enabled ids).')
ASSUMPTIONS = ['guards are pure table look-ups, so lazy evaluation cannot change their value',
               'steps whose fired set is non-deterministic/conflicting are judged by C04']


def strategy(tier):
    big = tier == 'thorough'

    @st.composite
    def cases(draw):
        # dense competition: orthogonal roots, few event names, several transitions (with
        # different priorities) on one source
        spec = draw(gen.charts(max_states=16 if big else 12, p_sends=0.2, send_delays=True,
                               p_eventless=0.2, p_aguard=0.15,
                               dup_tr=0.3, p_orth_root=0.45, n_events=2, min_tr=6, max_tr=16,
                               p_wild=0.5))
        ops = draw(gen.histories(spec, 6, 20, n_events=2, advances=True, delays=True))
        return {'spec': spec, 'ops': ops, 'faults': draw(gen.faults(ops)),
                'empty_event': draw(st.integers(0, 3)) == 0}
    return cases()


def oracle(case):
    return core_oracle(case, PROP)
