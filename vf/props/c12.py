"""C12 YAML import accepts only structurally sound statecharts."""
import copy
import io

from hypothesis import strategies as st

from .. import gen, prelude
from ..spec import to_yaml_dict

PROP = 'C12'
LEVEL = 'fault_enumeration'
BUDGET = {'quick': 640, 'thorough': 960}
RULE = ('cases = a valid document in the documented YAML format (from a generated well-formed '
        'chart; some names written as unquoted integers/booleans, which the importer coerces to '
        'strings, or as the words yes/no/on/off/y/n) to which fault operators are applied at every position: duplicate name, unknown '
        'target, transitions on final/history states, history under an orthogonal state or as '
        'root, initial = unknown/grandchild/self/parent, memory = unknown/self/non-sibling, '
        'unknown key at statechart/state/transition/contract level, unknown type, states/'
        'transitions/contract not a list, bad priority, both states and parallel states, missing '
        'name / state name / root state / top-level key. Quick: every single-fault variant of '
        'each base document (up to 40, sampled beyond); thorough: also pairs (up to 400). The '
        'verdict of an independent validator of exactly the listed rules, run on the text as '
        're-loaded by ruamel, decides: invalid => StatechartError (acceptance or any other '
        'exception is a violation); valid => import returns a structurally sound Statechart. '
        'Before each case one or two unrelated documents (%YAML 1.1 / 1.2 or %TAG directives, '
        'rejected ones, anchors) are imported in the same process. Non-trivial = faulty document whose fault is not at the root state; distinct = '
        'sha1(document).')
ASSUMPTIONS = ['texts that are not well-formed YAML are outside the quantifier',
               'ambiguous shapes (children under a final state, initial on a basic state, null '
               'names, contract items with several keys) are never generated']

SC_KEYS = {'name', 'description', 'preamble', 'root state'}
STATE_KEYS = {'name', 'type', 'on entry', 'on exit', 'transitions', 'contract', 'initial',
              'parallel states', 'states', 'memory'}
TR_KEYS = {'target', 'event', 'guard', 'action', 'contract', 'priority'}
C_KEYS = {'before', 'after', 'always'}
TYPES = {'final', 'shallow history', 'deep history'}


# ------------------------------------------------------------------ independent validator

def yaml_valid(doc):
    """(valid, reason) according to exactly the rules listed in property C12"""
    if not isinstance(doc, dict) or set(doc.keys()) != {'statechart'}:
        return False, 'top-level key'
    sc = doc['statechart']
    if not isinstance(sc, dict):
        return False, 'statechart not a mapping'
    if set(sc.keys()) - SC_KEYS:
        return False, 'unknown statechart key'
    if 'name' not in sc:
        return False, 'statechart name missing'
    if 'root state' not in sc:
        return False, 'root state missing'
    states = {}          # name -> (kind, parent, dict)
    order = []
    transitions = []

    def contract_ok(c):
        if not isinstance(c, list):
            return False
        for item in c:
            if not isinstance(item, dict) or not item or set(item.keys()) - C_KEYS:
                return False
        return True

    def walk(d, parent):
        if not isinstance(d, dict):
            return 'state not a mapping'
        if set(d.keys()) - STATE_KEYS:
            return 'unknown state key'
        if 'name' not in d:
            return 'state name missing'
        name = str(d['name'])
        typ = d.get('type')
        if 'type' in d and typ not in TYPES:
            return 'unknown type'
        for key in ('states', 'parallel states', 'transitions'):
            if key in d and not isinstance(d[key], list):
                return key + ' not a list'
        if 'contract' in d and not contract_ok(d['contract']):
            return 'bad contract'
        subs = d.get('states') or []
        par = d.get('parallel states') or []
        if typ is None:
            if subs and par:
                return 'both states and parallel states'
            kind = 'compound' if subs else 'orthogonal' if par else 'basic'
        else:
            kind = {'final': 'final', 'shallow history': 'shallow', 'deep history': 'deep'}[typ]
        if name in states:
            return 'duplicate name'
        states[name] = (kind, parent, d)
        order.append(name)
        for t in d.get('transitions') or []:
            if not isinstance(t, dict):
                return 'transition not a mapping'
            if set(t.keys()) - TR_KEYS:
                return 'unknown transition key'
            if 'contract' in t and not contract_ok(t['contract']):
                return 'bad contract'
            if 'priority' in t:
                p = t['priority']
                if p not in ('high', 'low'):
                    try:
                        int(p)
                    except Exception:
                        return 'bad priority'
            transitions.append((name, t))
        if kind in ('compound', 'orthogonal'):
            for c in (subs if kind == 'compound' else par):
                r = walk(c, name)
                if r:
                    return r
        return None

    r = walk(sc['root state'], None)
    if r:
        return False, r
    for name in order:
        kind, parent, d = states[name]
        if kind in ('shallow', 'deep'):
            if parent is None or states[parent][0] != 'compound':
                return False, 'history state not inside a compound state'
            if 'memory' in d and str(d['memory']):
                m = str(d['memory'])
                sibs = [n for n in order if states[n][1] == parent]
                if m == name or m not in sibs:
                    return False, 'memory is not another child of the parent'
        if kind == 'compound' and 'initial' in d and str(d['initial']):
            i = str(d['initial'])
            if i not in states or states[i][1] != name:
                return False, 'initial is not a direct child'
    for src, t in transitions:
        if states[src][0] in ('final', 'shallow', 'deep'):
            return False, 'transition on a state that cannot own transitions'
        if 'target' in t and str(t['target']) not in states:
            return False, 'unknown target'
    return True, 'valid'


def sound(sc):
    """problems of a Statechart returned by import_from_yaml (first clause of C12)"""
    from sismic import model
    bad = []
    names = sc.states
    if len(set(names)) != len(names):
        bad.append('names not unique')
    roots = [n for n in names if sc.parent_for(n) is None]
    if len(roots) != 1:
        bad.append('not exactly one root: %r' % roots)
    for n in names:
        p = sc.parent_for(n)
        if p is not None and (p not in names or n not in sc.children_for(p)):
            bad.append('parent/children inconsistent for %r' % n)
        for c in sc.children_for(n):
            if sc.parent_for(c) != n:
                bad.append('children/parent inconsistent for %r' % c)
        o = sc.state_for(n)
        if isinstance(o, model.HistoryStateMixin):
            if p is None or not isinstance(sc.state_for(p), model.CompoundState):
                bad.append('history state %r not inside a compound state' % n)
            if o.memory is not None and (o.memory == n or p is None
                                         or o.memory not in sc.children_for(p)):
                bad.append('memory of %r is not a sibling' % n)
        if isinstance(o, model.CompoundState) and o.initial is not None:
            if o.initial not in sc.children_for(n):
                bad.append('initial of %r is not a direct child' % n)
    # reachability from the root: one tree
    if len(roots) == 1:
        seen, todo = set(), [roots[0]]
        while todo:
            x = todo.pop()
            seen.add(x)
            todo.extend(sc.children_for(x))
        if seen != set(names):
            bad.append('states not reachable from the root')
    for t in sc.transitions:
        if t.source not in names or not isinstance(sc.state_for(t.source),
                                                   model.TransitionStateMixin):
            bad.append('transition from %r which cannot own transitions' % t.source)
        if t.target is not None and t.target not in names:
            bad.append('transition to unknown state %r' % t.target)
    return bad


# ------------------------------------------------------------------ fault operators
# each returns a list of (label, mutated document, at_root) for every applicable position

def _states(doc):
    """list of (state dict, parent dict or None, depth)"""
    out = []

    def walk(d, parent, depth):
        if not isinstance(d, dict):
            return
        out.append((d, parent, depth))
        for key in ('states', 'parallel states'):
            if isinstance(d.get(key), list):
                for c in d[key]:
                    walk(c, d, depth + 1)
    sc = doc.get('statechart')
    if isinstance(sc, dict) and isinstance(sc.get('root state'), dict):
        walk(sc['root state'], None, 0)
    return out


def _mutations(doc):
    """yield (label, path-function) where path-function mutates a deep copy in place"""
    sts = _states(doc)
    names = [s.get('name') for s, _, _ in sts]
    res = []

    def add(label, idx, fn):
        d2 = copy.deepcopy(doc)
        s2 = _states(d2)
        try:
            fn(d2, s2, s2[idx][0] if idx is not None else None)
        except Exception:
            return
        res.append((label, d2, idx in (None, 0)))

    for i, (s, parent, depth) in enumerate(sts):
        kind_children = 'states' if s.get('states') else 'parallel states' if s.get(
            'parallel states') else None
        typ = s.get('type')
        # F-dup
        others = [n for j, n in enumerate(names) if j != i]
        if others:
            add('dup', i, lambda d, ss, x, o=others[(i * 7) % len(others)]: x.__setitem__('name', o))
            if isinstance(s.get('name'), int) and not isinstance(s.get('name'), bool):
                pass
        # F-key
        add('key-state', i, lambda d, ss, x: x.__setitem__('colour', 'red'))
        # F-type
        if typ is None and not kind_children:
            add('type-unknown', i, lambda d, ss, x: x.__setitem__('type', 'initial'))
        if kind_children:
            add('children-not-list', i,
                lambda d, ss, x, k=kind_children: x.__setitem__(k, {'name': 'zz'}))
            # F-both
            other = 'parallel states' if kind_children == 'states' else 'states'
            add('both', i, lambda d, ss, x, k=other: x.__setitem__(k, [{'name': 'zz_extra'}]))
        # F-name
        add('state-name-missing', i, lambda d, ss, x: x.pop('name'))
        # F-init
        if s.get('states') and typ is None:
            add('init-unknown', i, lambda d, ss, x: x.__setitem__('initial', 'no such state'))
            add('init-self', i, lambda d, ss, x: x.__setitem__('initial', x['name']))
            if parent is not None:
                add('init-parent', i,
                    lambda d, ss, x, p=parent.get('name'): x.__setitem__('initial', p))
            grand = [g.get('name') for c in s['states'] if isinstance(c, dict)
                     for key in ('states', 'parallel states') for g in (c.get(key) or [])
                     if isinstance(g, dict)]
            if grand:
                add('init-grandchild', i, lambda d, ss, x, g=grand[0]: x.__setitem__('initial', g))
        # F-mem
        if typ in ('shallow history', 'deep history'):
            add('mem-unknown', i, lambda d, ss, x: x.__setitem__('memory', 'no such state'))
            add('mem-self', i, lambda d, ss, x: x.__setitem__('memory', x['name']))
            nonsib = [n for (o, p2, _), n in zip(sts, names) if p2 is not parent and o is not s]
            if nonsib:
                add('mem-non-sibling', i,
                    lambda d, ss, x, n=nonsib[(i * 5) % len(nonsib)]: x.__setitem__('memory', n))
        # F-owner
        if typ in ('final', 'shallow history', 'deep history'):
            add('owner', i, lambda d, ss, x: x.__setitem__('transitions', [{'event': 'go'}]))
        # F-hist: a history state under an orthogonal state
        if s.get('parallel states'):
            add('hist-under-orthogonal', i, lambda d, ss, x: x['parallel states'].append(
                {'name': 'zz_hist', 'type': 'shallow history'}))
            add('hist-under-orthogonal-first', i, lambda d, ss, x: x['parallel states'].insert(
                0, {'name': 'zz_hist', 'type': 'deep history'}))
            add('hist-under-orthogonal-middle', i, lambda d, ss, x: x['parallel states'].insert(
                len(x['parallel states']) // 2, {'name': 'zz_hist', 'type': 'shallow history'}))
        # transitions
        trs_ = s.get('transitions')
        for k, t in enumerate(trs_ if isinstance(trs_, list) else []):
            if not isinstance(t, dict):
                continue      # (an earlier fault operator already broke this entry)
            add('target-unknown', i,
                lambda d, ss, x, k=k: x['transitions'][k].__setitem__('target', 'no such state'))
            if t.get('target') is not None:
                # a target that differs from an existing name only by surrounding whitespace,
                # and an empty target, are unknown targets
                add('target-padded', i, lambda d, ss, x, k=k: x['transitions'][k].__setitem__(
                    'target', ' %s' % x['transitions'][k]['target']))
                add('target-empty', i,
                    lambda d, ss, x, k=k: x['transitions'][k].__setitem__('target', ''))
            add('key-transition', i,
                lambda d, ss, x, k=k: x['transitions'][k].__setitem__('trigger', 'e'))
            add('prio-medium', i,
                lambda d, ss, x, k=k: x['transitions'][k].__setitem__('priority', 'medium'))
            add('prio-list', i,
                lambda d, ss, x, k=k: x['transitions'][k].__setitem__('priority', [1]))
            add('transition-contract-not-list', i,
                lambda d, ss, x, k=k: x['transitions'][k].__setitem__('contract', 'x > 0'))
            if k == 0:
                add('transitions-not-list', i,
                    lambda d, ss, x: x.__setitem__('transitions', dict(x['transitions'][0])))
        # contracts
        add('key-contract', i, lambda d, ss, x: x.__setitem__('contract', [{'sometimes': 'True'}]))
        add('contract-not-list', i, lambda d, ss, x: x.__setitem__('contract', {'before': 'True'}))
    # statechart level
    add('key-statechart', None, lambda d, ss, x: d['statechart'].__setitem__('version', 2))
    add('name-missing', None, lambda d, ss, x: d['statechart'].pop('name'))
    add('root-missing', None, lambda d, ss, x: d['statechart'].pop('root state'))
    add('top-level-key', None, lambda d, ss, x: d.__setitem__('statecharts', d.pop('statechart')))
    add('top-level-extra', None, lambda d, ss, x: d.__setitem__('extra', 1))
    add('hist-root', None, lambda d, ss, x: d['statechart'].__setitem__(
        'root state', {'name': d['statechart']['root state']['name'], 'type': 'deep history'}))
    return res


# ------------------------------------------------------------------ strategy / oracle

def strategy(tier):
    big = tier == 'thorough'

    @st.composite
    def cases(draw):
        spec = draw(gen.charts(max_states=9, max_tr=8, min_tr=2, p_hist=0.5))
        for s in spec['states']:
            if draw(st.floats(0, 1)) < 0.3:
                s['on_entry'] = draw(st.sampled_from(['x = 1', 'y = x\nz = 2', 'pass']))
            if draw(st.floats(0, 1)) < 0.2:
                s['inv'] = ['True']
        for t in spec['transitions']:
            if draw(st.floats(0, 1)) < 0.3:
                t['guard'] = draw(st.sampled_from(['x > 0', 'True', 'after(1)']))
            if draw(st.floats(0, 1)) < 0.2:
                t['pre'] = ['True']
        # coercion variants: names written as unquoted ints / booleans (coerced to str on import)
        coerce = {}
        if draw(st.floats(0, 1)) < 0.4:
            pool = draw(st.lists(st.sampled_from([1, 2, 3, 10, True, False, 1.5, '1', '2', 'True', ' pad', 'pad ',
                                                  ' both ', 'in ner']),
                                 min_size=1, max_size=3, unique_by=lambda v: (type(v).__name__, v)))
            if draw(st.floats(0, 1)) < 0.35:
                # words that only YAML 1.1 reads as booleans: plain strings in the documented
                # (1.2) reading, whatever was imported before
                pool = draw(st.lists(st.sampled_from(['yes', 'no', 'on', 'off', 'y', 'n', 'Yes',
                                                      'NO', 'On', 'OFF']),
                                     min_size=2, max_size=3, unique=True))
            pool = pool[:len(spec['states'])]
            targets = draw(st.lists(st.sampled_from([s['name'] for s in spec['states']]),
                                    min_size=len(pool), max_size=len(pool), unique=True))
            coerce = dict(zip(targets, pool))
        # a compound state need not declare an initial state (valid by the listed rules)
        no_initial = [x['name'] for x in spec['states']
                      if x['kind'] == 'compound' and draw(st.floats(0, 1)) < 0.25]
        picks = draw(st.lists(st.floats(0, 0.999), min_size=40, max_size=40))
        return {'spec': spec, 'coerce': [[k, v] for k, v in coerce.items()], 'picks': picks,
                'pairs': big, 'no_initial': no_initial, 'prelude': draw(prelude.strategy())}
    return cases()


def base_document(case):
    spec = case['spec']
    if case.get('no_initial'):
        import copy as _copy
        spec = _copy.deepcopy(spec)
        for x in spec['states']:
            if x['name'] in case['no_initial']:
                x['initial'] = None
    doc = to_yaml_dict(spec)
    ren = {k: v for k, v in case.get('coerce') or []}
    if ren:
        def fix(d):
            if d.get('name') in ren:
                d['name'] = ren[d['name']]
            for key in ('initial', 'memory'):
                if d.get(key) in ren:
                    d[key] = ren[d[key]]
            for t in d.get('transitions') or []:
                if t.get('target') in ren:
                    t['target'] = ren[t['target']]
            for key in ('states', 'parallel states'):
                for c in d.get(key) or []:
                    fix(c)
        fix(doc['statechart']['root state'])
    return doc


def dump(doc):
    import ruamel.yaml
    y = ruamel.yaml.YAML(typ='safe', pure=True)
    y.default_flow_style = False
    y.width = 4096
    o = io.StringIO()
    y.dump(doc, o)
    return o.getvalue()


def judge(doc, label):
    """returns (violation or None, valid?)"""
    import ruamel.yaml
    from sismic.io import import_from_yaml
    from sismic.exceptions import StatechartError
    text = dump(doc)
    loaded = ruamel.yaml.YAML(typ='safe', pure=True).load(text)
    valid, reason = yaml_valid(loaded)
    try:
        sc = import_from_yaml(text)
        outcome = 'accepted'
    except StatechartError:
        outcome = 'rejected'
    except Exception as e:
        return ({'prop': PROP, 'kind': 'wrong-exception-type', 'step': None,
                 'detail': {'fault': label, 'exc': type(e).__name__, 'msg': str(e)[:200],
                            'rule': reason, 'text': text[:1500]}}, valid)
    if valid and outcome == 'rejected':
        return ({'prop': PROP, 'kind': 'valid-document-rejected', 'step': None,
                 'detail': {'fault': label, 'text': text[:1500]}}, valid)
    if not valid and outcome == 'accepted':
        return ({'prop': PROP, 'kind': 'invalid-document-accepted', 'step': None,
                 'detail': {'fault': label, 'rule': reason, 'text': text[:1500]}}, valid)
    if valid:
        bad = sound(sc)
        if bad:
            return ({'prop': PROP, 'kind': 'unsound-statechart-returned', 'step': None,
                     'detail': {'fault': label, 'problems': bad[:5], 'text': text[:1500]}}, valid)
    return None, valid


def oracle(case):
    from ..cli import sha
    viol, labels, keys = [], {}, []
    prelude.run_prelude(case.get('prelude'))
    if 'doc' in case:          # replay of a single document
        v, valid = judge(case['doc'], case.get('label', 'replay'))
        return {'violations': [v] if v else [], 'labels': {}, 'keys': []}
    base = base_document(case)
    v, valid = judge(base, 'none')
    labels['base documents'] = 1
    labels['base documents valid'] = 1 if valid else 0
    if v:
        v['detail']['doc'] = base
        viol.append(v)
    singles = _mutations(base)
    labels['single-fault variants available'] = len(singles)
    if len(singles) > 40 and not case.get('pairs'):
        idx = sorted(set(int(p * len(singles)) for p in case['picks']))
        chosen = [singles[i] for i in idx]
    else:
        chosen = singles
    docs = [(lab, d, root) for lab, d, root in chosen]
    if case.get('pairs'):
        picks = case['picks']
        pairs = []
        for j, (lab, d, root) in enumerate(singles):
            second = _mutations(d)
            if not second:
                continue
            for p in picks[:max(1, 400 // max(1, len(singles)))]:
                lab2, d2, root2 = second[int(p * len(second))]
                pairs.append((lab + '+' + lab2, d2, root and root2))
        docs += pairs[:400]
    sample = None
    for lab, d, root in docs:
        if viol:
            break
        v, valid = judge(d, lab)
        labels['fault ' + lab.split('+')[0]] = labels.get('fault ' + lab.split('+')[0], 0) + 1
        labels['faulty documents'] = labels.get('faulty documents', 0) + 1
        if valid:
            labels['faulty documents still valid by the rules'] = labels.get(
                'faulty documents still valid by the rules', 0) + 1
        if v:
            v['detail']['doc'] = d
            viol.append(v)
        elif not valid and not root:
            keys.append(sha(d))
            if sample is None:
                sample = {'fault': lab, 'text': dump(d)[:700]}
    return {'violations': viol, 'labels': labels, 'keys': keys, 'sample': sample}
