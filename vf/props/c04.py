"""C04 Non-determinism and conflicts are reported, never silently resolved."""
from hypothesis import strategies as st
from .. import gen
from ..core import core_oracle

PROP = 'C04'
LEVEL = 'exploration'
BUDGET = {'quick': 9600, 'thorough': 160000}
RULE = ('cases = well-formed chart with dense same-event transitions (2 event names, 8-16 '
        'transitions, duplicated transitions on one source, 45% orthogonal roots) + history with '
        'guard valuations biased to all-true. For the fired set F of each step the pairs are '
        'classified same-region / leaves-region: NonDeterminismError resp. '
        'ConflictingTransitionsError must be raised (either if both apply), nothing may be '
        'exited/entered/executed/consumed (a following all-guards-false step must consume exactly '
        'the still pending event), and no such error when all pairs are in distinct regions and '
        'stay inside. Non-trivial = step with |F|>=2; distinct = sha1(chart, configuration, F).')
ASSUMPTIONS = ['guards are pure table look-ups (their evaluation is not "executed code")']
LEAFY_MIX = (('sibling', 45), ('other', 35), ('orthin', 5), ('anc', 5), ('desc', 0), ('hist', 0),
             ('internal', 10))
MIX = (('sibling', 35), ('other', 10), ('orthin', 10), ('anc', 15), ('desc', 5), ('hist', 5),
       ('internal', 20))


def strategy(tier):
    big = tier == 'thorough'

    @st.composite
    def cases(draw):
        spec = draw(gen.charts(max_states=14 if big else 10, mix=MIX, n_events=2, min_tr=8,
                               max_tr=16, p_orth_root=0.45, p_eventless=0.1, dup_tr=0.25,
                               p_sends=0.1))
        ops = draw(gen.histories(spec, 6, 18, n_events=2, p_all=0.5, p_none=0.05))
        return {'spec': spec, 'ops': ops, 'faults': draw(gen.faults(ops))}

    @st.composite
    def leafy(draw):
        # nested orthogonal states, one transition per leaf and event: the fired sets are pairwise
        # in distinct regions, so only the "leaves its region" clause decides (3+ transitions)
        spec = draw(gen.charts(max_states=16 if big else 13, max_depth=5, mix=LEAFY_MIX,
                               n_events=1, min_tr=14, max_tr=26, p_orth_root=0.8, orth_weight=6,
                               p_eventless=0.0, p_hist=0.1, allow_final=False, priorities=[0]))
        t = gen.S.Tree(spec)
        seen, keep = set(), []
        for tr in spec['transitions']:
            if t.kind[tr['source']] != 'basic' or (tr['source'], tr['event']) in seen:
                continue
            seen.add((tr['source'], tr['event']))
            keep.append(tr)
        for i, tr in enumerate(keep):
            tr['id'] = i
        spec['transitions'] = keep
        ops = draw(gen.histories(spec, 4, 12, n_events=1, p_all=0.7, p_none=0.0))
        return {'spec': spec, 'ops': ops, 'faults': draw(gen.faults(ops))}
    return st.one_of(cases(), cases(), leafy())


def oracle(case):
    return core_oracle(case, PROP)
