"""C04 Non-determinism and conflicts are reported, never silently resolved."""
from hypothesis import strategies as st
from .. import gen
from ..core import core_oracle

PROP = 'C04'
LEVEL = 'exploration'
BUDGET = {'quick': 4000, 'thorough': 80000}
RULE = ('cases = well-formed chart with dense same-event transitions (2 event names, 8-16 '
        'transitions, duplicated transitions on one source, 45% orthogonal roots) + history with '
        'guard valuations biased to all-true. For the fired set F of each step the pairs are '
        'classified same-region / leaves-region: NonDeterminismError resp. '
        'ConflictingTransitionsError must be raised (either if both apply), nothing may be '
        'exited/entered/executed/consumed (a following all-guards-false step must consume exactly '
        'the still pending event), and no such error when all pairs are in distinct regions and '
        'stay inside. Non-trivial = step with |F|>=2; distinct = sha1(chart, configuration, F).')
ASSUMPTIONS = ['guards are pure table look-ups (their evaluation is not "executed code")']
MIX = (('sibling', 35), ('other', 10), ('orthin', 10), ('anc', 15), ('desc', 5), ('hist', 5),
       ('internal', 20))


def strategy(tier):
    big = tier == 'thorough'

    @st.composite
    def cases(draw):
        spec = draw(gen.charts(max_states=14 if big else 10, mix=MIX, n_events=2, min_tr=8,
                               max_tr=16, p_orth_root=0.45, p_eventless=0.1, dup_tr=0.25,
                               p_sends=0.1))
        ops = draw(gen.histories(spec, 6, 18, n_events=2, p_all=0.5, p_none=0.05))
        return {'spec': spec, 'ops': ops}
    return cases()


def oracle(case):
    return core_oracle(case, PROP)
