"""Known findings: read-only list committed in /verif/known_findings.json.

Only entries with status "known" suppress anything, and only violations matched by their
signature predicate (below).  "fixed" entries suppress nothing; their witnesses are replayed on
every run so that the violation is reported again if it ever returns.
"""
import json
import os

HERE = os.path.dirname(os.path.dirname(os.path.abspath(__file__)))
PATH = os.path.join(HERE, 'known_findings.json')


# ------------------------------------------------------------------ signature predicates
# each receives (violation, case) and returns True only for the pinned failure shape

def sig_never(v, case):
    return False


def sig_f12_queue_race(v, case):
    """C20: a queue() call overlapping a consuming execute_once at line granularity left the
    external queue unsorted / an event overtaken (Interpreter queues are not thread-safe)."""
    d = v.get('detail', {})
    return (v.get('kind') in ('queue-order', 'due-event-not-consumed', 'event-lost',
                              'event-duplicated', 'unknown-event-consumed')
            and d.get('granularity') == 'line+queue'
            and bool(d.get('queue_overlapped_execute')))


def sig_f13_pause_stop_race(v, case):
    """C20: pause() by a second client racing stop(): stop() never returns"""
    d = v.get('detail', {})
    return (v.get('kind') == 'stop-never-returns' and bool(d.get('pause_raced_stop')))


def sig_f10_quoted_expression(v, case):
    """C19: `expression "<expr>" holds` in the documented quoted spelling"""
    d = v.get('detail', {})
    return v.get('kind') == 'bdd-verdict' and d.get('step_kind') in (
        'expression_holds_quoted', 'expression_does_not_hold_quoted')


SIGNATURES = {k: f for k, f in globals().items() if k.startswith('sig_')}


class Known:
    def __init__(self, path=PATH):
        self.entries = []
        if os.path.exists(path):
            with open(path) as f:
                self.entries = json.load(f).get('findings', [])

    def match(self, prop, violation, case):
        for e in self.entries:
            if e.get('status') != 'known' or prop not in e.get('properties', []):
                continue
            fn = SIGNATURES.get(e.get('signature'), sig_never)
            try:
                if fn(violation, case):
                    return e['id']
            except Exception:
                continue
        return None

    def what(self, fid):
        for e in self.entries:
            if e['id'] == fid:
                return e.get('what', fid)
        return fid


def _regression_cases(pid):
    """committed regression corpus: shrunk cases on which a mutant or seeded change violated the
    property (replays/regress/<PID>-*.json); they must hold on the current tree"""
    d = os.path.join(HERE, 'replays', 'regress')
    if not os.path.isdir(d):
        return []
    return sorted(os.path.join('replays', 'regress', f) for f in os.listdir(d)
                  if f.upper().startswith(pid + '-') and f.endswith('.json'))


def replay_witnesses(pid, mod, known):
    """re-run the committed witnesses of findings that concern this property, and the regression
    corpus of this property"""
    out = {'n': 0, 'known': [], 'fails': [], 'regress': 0}
    if not hasattr(mod, 'oracle'):
        return out
    for w in _regression_cases(pid):
        with open(os.path.join(HERE, w)) as f:
            data = json.load(f)
        case = data['case'] if 'case' in data else data
        r = mod.oracle(case)
        out['regress'] += 1
        unknown = [v for v in r.get('violations', []) if known.match(pid, v, case) is None]
        if unknown:
            out['fails'].append({'case': case, 'violations': unknown})
    for e in known.entries:
        if pid not in e.get('properties', []):
            continue
        wit = e.get('witness')
        paths = wit if isinstance(wit, list) else [wit]
        for w in paths:
            if not w:
                continue
            if os.path.basename(w).split('-')[0].split('.')[0].upper() not in (pid, e['id']):
                pass
            if not os.path.basename(w).upper().startswith(pid):
                continue
            full = os.path.join(HERE, w)
            if not os.path.exists(full):
                continue
            with open(full) as f:
                data = json.load(f)
            case = data['case'] if 'case' in data else data
            r = mod.oracle(case)
            out['n'] += 1
            unknown = []
            for v in r.get('violations', []):
                fid = known.match(pid, v, case)
                if fid is None:
                    unknown.append(v)
                else:
                    out['known'].append(fid)
            if unknown:
                out['fails'].append({'case': case, 'violations': unknown})
    return out
