"""Drive a sismic Interpreter through a history and record what happened (DESIGN.md 3.3/3.5)."""
from . import probes
from .spec import Tree, to_statechart
from .refmodel import QueueModel


def ev_sig(e):
    """JSON-able signature of an Event"""
    if e is None:
        return None
    data = dict(e.data)
    return {'cls': type(e).__name__, 'name': e.name,
            'data': {k: data[k] for k in sorted(data)}}


def micro_sig(m):
    return {'t': probes.tid_of(m.transition) if m.transition is not None else None,
            'has_t': m.transition is not None,
            'internal': (m.transition.internal if m.transition is not None else None),
            'exited': list(m.exited_states), 'entered': list(m.entered_states),
            'sent': [ev_sig(e) for e in m.sent_events], 'event': ev_sig(m.event)}


def macro_sig(step):
    if step is None:
        return None
    return {'time': step.time, 'event': ev_sig(step.event),
            'micro': [micro_sig(m) for m in step.steps]}


def sends_from_log(spec_by, log_delta):
    """The events the executed fragments send, reconstructed from the log and the spec's static
    annotations (independent of MacroStep.sent_events).  Returns a list of dicts."""
    out = []
    for rec in log_delta:
        kind, ident, v = rec[0], rec[1], rec[2]
        if kind == 'en':
            lst = spec_by['sid'][ident].get('sends_entry')
        elif kind == 'ex':
            lst = spec_by['sid'][ident].get('sends_exit')
        elif kind == 'tr':
            lst = spec_by['tid'][ident].get('sends')
        else:
            continue
        for j, s in enumerate(lst or []):
            data = {'uid': s.get('uid_base', 0) + v * 10 + j}
            if s.get('nouid'):
                data = {}
            if s.get('delay') is not None:
                data['delay'] = s['delay']
            data.update(s.get('params') or {})
            out.append({'cls': 'InternalEvent' if s.get('kind', 'send') == 'send' else 'MetaEvent',
                        'name': s['name'], 'data': {k: data[k] for k in sorted(data)},
                        'at': (kind, ident, v)})
    return out


class Drive:
    """One interpreter over an instrumented spec, with its queue model."""

    def __init__(self, spec, sc=None, ignore_contract=True, ctx_extra=None, interpreter=None,
                 clock=None, record_meta=False, evaluator_klass=None):
        from sismic.interpreter import Interpreter
        self.spec = spec
        self.tree = Tree(spec)
        self.by = {'sid': {s['sid']: s for s in spec['states'] if 'sid' in s},
                   'tid': {t['id']: t for t in spec['transitions']}}
        if interpreter is None:
            self.sc = sc if sc is not None else to_statechart(spec)
            kw = {}
            if clock is not None:
                kw['clock'] = clock
            if evaluator_klass is not None:
                kw['evaluator_klass'] = evaluator_klass
            self.interp = Interpreter(self.sc, initial_context=probes.new_context(ctx_extra),
                                      ignore_contract=ignore_contract, **kw)
        else:
            self.interp = interpreter
            self.sc = interpreter.statechart
        self.qm = QueueModel()
        self.meta = []          # names of the meta-events emitted, for the current step
        if record_meta:     # (a listener makes the interpreter unpicklable: opt-in only)
            self.interp.attach(lambda ev, _m=self.meta: _m.append(ev.name))
        self.started = False
        self.nlog = len(self.ctx['log'])
        self.nglog = len(self.ctx['glog'])

    @property
    def ctx(self):
        return self.interp.context

    def queue(self, name, delay=None, mode='str', uid=None, params=None):
        from sismic.model import Event
        kw = dict(params or {})
        if uid is not None:
            kw['uid'] = uid
        if delay is not None:
            kw['delay'] = delay
        if mode == 'event':
            self.interp.queue(Event(name, **kw))
        elif mode == 'multi_dec':
            # queue(a, b) with Event instances carrying their own delays, the later argument being
            # due EARLIER than the first one
            d1 = (delay or 0) + 2
            kw1 = dict(kw)
            kw1['delay'] = d1
            kw2 = dict(kw)
            if uid is not None:
                kw2['uid'] = str(uid) + 'b'
            self.interp.queue(Event(name, **kw1), Event(name + '_2', **kw2))
            self.qm.push('ext', self.interp.time + d1, uid, name)
            self.qm.push('ext', self.interp.time + (delay or 0), kw2.get('uid'), name + '_2')
            return
        elif mode == 'multi':
            # queue(a, b): two events in one call, the second one as an Event instance
            kw2 = dict(kw)
            if uid is not None:
                kw2['uid'] = str(uid) + 'b'
            self.interp.queue(Event(name, **kw), Event(name + '_2', **kw2))
            self.qm.push('ext', self.interp.time + (delay or 0), uid, name)
            self.qm.push('ext', self.interp.time + (delay or 0), kw2.get('uid'), name + '_2')
            return
        else:
            self.interp.queue(name, **kw)
        self.qm.push('ext', self.interp.time + (delay or 0), uid, name)

    def advance(self, dt):
        self.interp.clock.time += dt

    def set_gv(self, gv):
        d = self.ctx['gv']
        d.clear()
        for t, val in zip(self.spec['transitions'], gv):
            d[t['id']] = bool(val)

    def step(self, gv=None):
        """execute_once under guard valuation gv; returns a record dict"""
        if gv is not None:
            self.set_gv(gv)
        interp = self.interp
        rec = {'config_before': list(interp.configuration), 'T': interp.clock.time,
               'started_before': self.started, 'v_before': self.ctx['v'],
               'gv': {t['id']: bool(val) for t, val in zip(self.spec['transitions'], gv or [])}}
        head = self.qm.head(rec['T'])
        rec['head'] = dict(head) if head else None
        rec['_head'] = head
        rec['exc'] = None
        rec['exc_obj'] = None
        del self.meta[:]
        try:
            res = interp.execute_once()
            rec['result'] = macro_sig(res)
            rec['returned_none'] = res is None
            rec['_res'] = res
        except Exception as e:  # recorded, judged by the oracle
            rec['result'] = None
            rec['returned_none'] = False
            rec['_res'] = None
            rec['exc'] = type(e).__name__
            rec['exc_obj'] = e
        self.started = True
        log = self.ctx['log']
        glog = self.ctx['glog']
        rec['log'] = [tuple(x) for x in log[self.nlog:]]
        rec['glog'] = [tuple(x) for x in glog[self.nglog:]]
        self.nlog, self.nglog = len(log), len(glog)
        rec['meta'] = list(self.meta)
        rec['config_after'] = list(interp.configuration)
        rec['v_after'] = self.ctx['v']
        rec['time_after'] = interp.time
        rec['final'] = interp.final
        return rec

    def public(self, rec):
        """JSON-able part of a record"""
        return {k: v for k, v in rec.items() if not k.startswith('_') and k != 'exc_obj'}
