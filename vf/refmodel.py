"""Reference model of the documented semantics, over chart specs (never over sismic objects).

Written from docs/*.rst and the property statements; used only for what a property states.
"""
from .spec import Tree, HISTORY, prio_value


class QueueModel:
    """Two queues ordered by (due time, arrival number); internal before external."""

    def __init__(self):
        self.q = {'int': [], 'ext': []}
        self.seq = 0
        self.consumed = []
        self.pushed = []

    def push(self, kind, due, uid, name):
        self.seq += 1
        e = {'kind': kind, 'due': due, 'seq': self.seq, 'uid': uid, 'name': name}
        self.q[kind].append(e)
        self.pushed.append(e)
        return e

    def head(self, now):
        for kind in ('int', 'ext'):
            due = [e for e in self.q[kind] if e['due'] <= now]
            if due:
                return min(due, key=lambda e: (e['due'], e['seq']))
        return None

    def pop(self, e):
        self.q[e['kind']].remove(e)
        self.consumed.append(e)

    def pending(self):
        return self.q['int'] + self.q['ext']

    def snapshot(self):
        return {k: [dict(e) for e in v] for k, v in self.q.items()}


def select(tree, spec, config, ename, gv):
    """C01: the transitions that fire in configuration `config` with pending event `ename`
    (None if none) under guard valuation gv (tid -> bool)."""
    config = set(config)
    active = [t for t in spec['transitions'] if t['source'] in config]
    en_eventless = [t for t in active if t.get('event') is None and gv[t['id']]]
    en_evented = [t for t in active if t.get('event') is not None and ename is not None
                  and t['event'] == ename and gv[t['id']]]
    if en_eventless:
        cand, eventless = en_eventless, True
    else:
        cand, eventless = en_evented, False
    fired = []
    for t in cand:
        src = t['source']
        if any(o['source'] in tree.descendants(src) for o in cand):
            continue
        if any(o['source'] == src and prio_value(o.get('priority')) > prio_value(t.get('priority'))
               for o in cand):
            continue
        fired.append(t)
    return {'fired': fired, 'eventless': eventless, 'candidates': cand,
            'enabled_all': en_eventless + en_evented}


def leaves_region(tree, t, other_source):
    """t's source is in another region than other_source; does t leave its region?"""
    if t.get('target') is None:
        return False
    l = tree.lca(t['source'], other_source)
    region = tree.child_towards(l, t['source'])
    return t['target'] not in tree.desc_or_self(region)


def classify(tree, fired):
    """C04: admissible outcomes for a set of fired transitions: subset of {ok, nondet, conflict}"""
    nondet = conflict = False
    for i in range(len(fired)):
        for j in range(i + 1, len(fired)):
            a, b = fired[i], fired[j]
            if not tree.different_regions(a['source'], b['source']):
                nondet = True
            elif leaves_region(tree, a, b['source']) or leaves_region(tree, b, a['source']):
                conflict = True
    out = set()
    if nondet:
        out.add('nondet')
    if conflict:
        out.add('conflict')
    if not out:
        out.add('ok')
    return out


def scope_child(tree, source, target):
    """the state whose active descendants-or-self are exited by an external transition"""
    l = tree.lca(source, target)
    return tree.child_towards(l, source), l


def entry_path(tree, source, target):
    l = tree.lca(source, target)
    path = [target]
    for a in tree.ancestors(target):
        if a == l:
            break
        path.insert(0, a)
    return path


def legal(tree, config):
    """C02: problems of a configuration (empty list = legal or empty)"""
    config = set(config)
    if not config:
        return []
    bad = []
    if tree.root not in config:
        bad.append(('root-missing',))
    for n in sorted(config):
        p = tree.parent[n]
        if p is not None and p not in config:
            bad.append(('parent-inactive', n))
        k = tree.kind[n]
        act = [c for c in tree.children[n] if c in config]
        if k == 'compound':
            if len(act) != 1:
                bad.append(('compound-children', n, sorted(act)))
        elif k == 'orthogonal':
            if len(act) != len(tree.children[n]):
                bad.append(('orth-child-missing', n, sorted(set(tree.children[n]) - set(act))))
        elif k in HISTORY:
            bad.append(('history-active', n))
        elif k == 'final' and p == tree.root:
            bad.append(('root-final-active', n))
    return bad
