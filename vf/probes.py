"""Instrumentation as data in the execution context (DESIGN.md 3.2).

The initial context holds ``log`` (what code ran, in order), ``glog`` (guard evaluations), ``gv``
(transition id -> truth value, rewritten by the harness before every step), ``cv`` (condition id
-> truth value) and ``v`` (a counter bumped by every executed fragment).  States are referred to
by their stable ``sid`` so that renaming does not change the log.
"""
import copy
import re


class Runaway(Exception):
    """an execute_once call executed more code fragments than any finite chart/history needs"""


RUNAWAYS = []


class GuardedList(list):
    """the probe log; refuses to grow beyond LIMIT entries so that a non-terminating macro step
    becomes a visible exception instead of exhausting memory"""
    LIMIT = 200000

    def append(self, x):
        if len(self) >= self.LIMIT:
            RUNAWAYS.append(1)
            raise Runaway('more than %d code fragments executed' % self.LIMIT)
        list.append(self, x)


class Cell:
    """an ordinary (hashable, mutable) object kept in the context: counter 'o' bumps its
    attribute in place"""

    def __init__(self):
        self.k = 0

    def __repr__(self):
        return 'Cell(%r)' % self.k


def new_context(extra=None):
    ctx = {'log': GuardedList(), 'glog': GuardedList(), 'gv': {}, 'cv': {}, 'fv': {}, 'v': 0, 'w': [],
           'n': [[]], 'o': Cell(), 't': ([],)}
    if extra:
        ctx.update(extra)
    return ctx


COUNTERS = {'v': ('v = v + 1', 'v'), 'w': ('w.append(1)', 'len(w)'),
            'n': ('n[0].append(1)', 'len(n[0])'), 'o': ('o.k = o.k + 1', 'o.k'),
            # 'vm': as 'v', but conditions read __old__ as the read-only mapping it is
            'vm': ('v = v + 1', 'v'),
            # 't': a list held inside a tuple (the tuple is immutable, its content is not)
            't': ('t[0].append(1)', 'len(t[0])')}
OLD_EXPR = {'v': '__old__.v', 'w': 'len(__old__.w)', 'n': 'len(__old__.n[0])',
            'o': '__old__.o.k', 'vm': "(__old__['v'] + 0 * len(dict(__old__)))",
            't': 'len(__old__.t[0])'}


def _sends(lst, val='v'):
    out = []
    for j, s in enumerate(lst or []):
        kind = s.get('kind', 'send')
        base = s.get('uid_base', 0)
        args = ['%r' % s['name'], ('uid=%d+%s*10+%d' % (base, val, j)) if base
                else 'uid=%s*10+%d' % (val, j)]
        if s.get('nouid'):
            # anonymous events: equal to every other event of that name and delay
            args = ['%r' % s['name']]
        if s.get('delay') is not None:
            args.append('delay=%r' % s['delay'])
        for k, val in sorted((s.get('params') or {}).items()):
            args.append('%s=%r' % (k, val))
        out.append('%s(%s)' % (kind, ', '.join(args)))
    return out


def entry_code(sid, sends=None, extra=None, counter='v'):
    bump, val = COUNTERS[counter]
    lines = [bump, "log.append(('en', %d, %s, time))" % (sid, val)] + (extra or []) + \
        _sends(sends, val)
    return '\n'.join(lines)


def exit_code(sid, sends=None, extra=None, counter='v'):
    bump, val = COUNTERS[counter]
    lines = [bump, "log.append(('ex', %d, %s, time))" % (sid, val)] + (extra or []) + \
        _sends(sends, val)
    return '\n'.join(lines)


def action_code(tid, sends=None, extra=None, counter='v'):
    bump, val = COUNTERS[counter]
    lines = [bump, "log.append(('tr', %d, %s, time))" % (tid, val)] + (extra or []) + \
        _sends(sends, val)
    return '\n'.join(lines)


def guard_code(tid, active_name=None):
    if active_name is not None:
        # the guard also depends on the live configuration through active()
        return ("(glog.append((%d, getattr(event, 'name', None), getattr(event, 'uid', None))) "
                "or (gv[%d] and active(%r)))" % (tid, tid, active_name))
    return ("(glog.append((%d, getattr(event, 'name', None), getattr(event, 'uid', None))) "
            "or gv[%d])" % (tid, tid))


def time_guard_code(tid, pred, d):
    """guard whose value is after(d)/idle(d); logs what it saw"""
    return ("(glog.append((%d, %r, %r, after(%r), idle(%r), time)) or %s(%r))"
            % (tid, pred, d, d, d, pred, d))


def cond_code(cid, with_old, counter='v', active_name=None, time_probe=False):
    """contract condition: logs its evaluation, value taken from cv (data only)"""
    tail = 'cv[%d]' % cid
    if active_name is not None:
        tail = '((active(%r) or True) and cv[%d])' % (active_name, cid)
    if time_probe and with_old:       # (preconditions do not expose after / idle)
        # the condition also looks at the time predicates (its value does not depend on them)
        tail = '((after(100000) or idle(100000) or True) and %s)' % tail
    if with_old:
        return ("(log.append(('c', %d, %s if __old__ is not None else None)) or %s)"
                % (cid, OLD_EXPR[counter], tail))
    return "(log.append(('c', %d, None)) or %s)" % (cid, tail)


def cond_code_fn(cid, with_old, counter='v'):
    """contract condition calling the harness function ``chk`` (fault injection by count)"""
    sr = ("(sent('e0'), sent('e1'), sent('e2'), received('e0'), received('e1'), "
          "received('e2'), received('e'), received('2'), received(''))")
    if with_old:
        old = OLD_EXPR[counter]
        return "chk(%d, %s if __old__ is not None else None, %s)" % (cid, old, sr)
    return "chk(%d, None, %s)" % (cid, sr)


_TID = re.compile(r"log\.append\(\('tr', (\d+), (?:v|len\(w\)|len\(n\[0\]\)|o\.k|len\(t\[0\]\)), time\)\)")
_SID = re.compile(r"log\.append\(\('(?:en|ex)', (\d+), v, time\)\)")


def tid_of(transition):
    """stable id of a sismic Transition, recovered from its action probe"""
    m = _TID.search(transition.action or '')
    return int(m.group(1)) if m else None


def instrument(spec, guards='gv', contracts=None, cond_fn=False, counter='v'):
    """Return a copy of the spec with code rendered from the abstract annotations.

    guards: 'gv' -> table guards on every transition; None -> leave as is.
    contracts: None, or True to render ``c_pre/c_post/c_inv`` (lists of condition ids) of states
    and transitions into probe conditions.
    """
    spec = copy.deepcopy(spec)
    if cond_fn:
        def mk(c, with_old):
            return cond_code_fn(c, with_old, counter)
    else:
        def mk(c, with_old, o=None):
            return cond_code(c, with_old, counter, (o or {}).get('c_active'),
                             bool((o or {}).get('c_time')))
    for s in spec['states']:
        s['on_entry'] = entry_code(s['sid'], s.get('sends_entry'), s.get('extra_entry'), counter)
        s['on_exit'] = exit_code(s['sid'], s.get('sends_exit'), s.get('extra_exit'), counter)
        if contracts:
            kw = {} if cond_fn else {'o': s}
            s['pre'] = [mk(c, False, **kw) for c in s.get('c_pre') or []]
            s['post'] = [mk(c, True, **kw) for c in s.get('c_post') or []]
            s['inv'] = [mk(c, True, **kw) for c in s.get('c_inv') or []]
    for t in spec['transitions']:
        t['action'] = action_code(t['id'], t.get('sends'), t.get('extra'), counter)
        if guards in ('gv', 'time') and t.get('tguard'):
            t['guard'] = time_guard_code(t['id'], t['tguard'][0], t['tguard'][1])
        elif guards == 'gv':
            t['guard'] = guard_code(t['id'], t.get('aguard'))
        if contracts:
            kw = {} if cond_fn else {'o': t}
            t['pre'] = [mk(c, False, **kw) for c in t.get('c_pre') or []]
            t['post'] = [mk(c, True, **kw) for c in t.get('c_post') or []]
            t['inv'] = [mk(c, True, **kw) for c in t.get('c_inv') or []]
    return spec
