"""Step-by-step oracle shared by the interpreter-core properties C01..C06 (DESIGN.md section 4).

``run_core(case)`` drives the real interpreter through ``case['ops']`` over the instrumented
``case['spec']`` and compares every ``execute_once`` with the reference model.  It returns
``(violations, info)``; every violation is tagged with the property it belongs to.
"""
from . import probes
from . import refmodel as R
from .run import Drive, sends_from_log
from .spec import Tree, HISTORY, to_statechart

EXC_OF = {'nondet': 'NonDeterminismError', 'conflict': 'ConflictingTransitionsError'}


def V(prop, kind, step, **detail):
    """a violation; `prop` is one property id, a list of ids, or '*' (concerns every check)"""
    props = [prop] if isinstance(prop, str) else list(prop)
    return {'prop': props[0], 'props': props, 'kind': kind, 'step': step, 'detail': detail}


def concerns(v, want):
    return '*' in v['props'] or bool(set(v['props']) & set(want))


class Info:
    def __init__(self):
        self.labels = {}
        self.keys = {}     # prop -> set of nontrivial keys (hashable)

    def label(self, name, n=1):
        self.labels[name] = self.labels.get(name, 0) + n

    def key(self, prop, k):
        self.keys.setdefault(prop, set()).add(k)


def check_block_structure(tree, spec, rec, i, out, info, mem):
    """C02/C03/C06 checks on the micro steps of one returned macro step.

    mem: model of history memories (parent name -> set of active strict descendants when the
    parent was last exited)."""
    res = rec['result']
    micro = res['micro']
    cur = set(rec['config_before'])
    by_sid = {s['sid']: s for s in spec['states']}
    sid_of = {s['name']: s['sid'] for s in spec['states']}
    by_tid = {t['id']: t for t in spec['transitions']}
    hist_children = {}
    for s in spec['states']:
        if s['kind'] in HISTORY:
            hist_children.setdefault(s['parent'], []).append(s['name'])

    # ---- truthfulness of the log (C03.1)
    expect = []
    for m in micro:
        for s in m['exited']:
            expect.append(('ex', sid_of.get(s)))
        if m['has_t']:
            expect.append(('tr', m['t']))
        for s in m['entered']:
            expect.append(('en', sid_of.get(s)))
    got = [(x[0], x[1]) for x in rec['log'] if x[0] in ('ex', 'en', 'tr')]
    if got != expect:
        out.append(V('C03', 'log-differs-from-trace', i, executed=got, claimed=expect))
    # sent events, micro step by micro step
    pos = 0
    logrecs = [x for x in rec['log'] if x[0] in ('ex', 'en', 'tr')]
    if got == expect:
        for mi, m in enumerate(micro):
            n = len(m['exited']) + (1 if m['has_t'] else 0) + len(m['entered'])
            frag = logrecs[pos:pos + n]
            pos += n
            exp_sent = [{'cls': e['cls'], 'name': e['name'], 'data': e['data']}
                        for e in sends_from_log({'sid': by_sid, 'tid': by_tid}, frag)]
            if exp_sent != m['sent']:
                out.append(V(['C03', 'C05'], 'sent-events-differ', i, micro=mi, executed=exp_sent,
                             claimed=m['sent']))

    # ---- structure: (T stab*)+ | initial stab* | empty-step
    first_block = True
    block_open = False
    t_sources = []
    for mi, m in enumerate(micro):
        # replay
        ex, en = m['exited'], m['entered']
        if not set(ex) <= cur or len(set(ex)) != len(ex):
            out.append(V('C03', 'exited-not-active', i, micro=mi, exited=ex, current=sorted(cur)))
        before = set(cur)
        if m['has_t']:
            # previous block must be complete
            if block_open:
                bad = R.legal(tree, cur)
                if bad:
                    out.append(V('C03', 'next-transition-before-stable', i, micro=mi, problems=bad))
            block_open = True
            t = by_tid.get(m['t'])
            if t is None:
                out.append(V('C03', 'unknown-transition', i, micro=mi))
                cur = (cur - set(ex)) | set(en)
                continue
            t_sources.append(t['source'])
            if t.get('target') is None:
                if ex or en:
                    out.append(V('C03', 'internal-transition-moves', i, micro=mi, exited=ex,
                                 entered=en))
            else:
                sc_child, _ = R.scope_child(tree, t['source'], t['target'])
                want_exit = cur & tree.desc_or_self(sc_child)
                if set(ex) != want_exit:
                    out.append(V('C03', 'exit-set', i, micro=mi, tid=t['id'], exited=ex,
                                 expected=sorted(want_exit)))
                path = R.entry_path(tree, t['source'], t['target'])
                if en != path:
                    out.append(V('C03', 'entry-path', i, micro=mi, tid=t['id'], entered=en,
                                 expected=path))
            check_exit_order(tree, ex, i, mi, out)
            record_memory(tree, hist_children, ex, before, mem)
        else:
            if mi == 0 and not rec['started_before']:
                if ex or en != [tree.root]:
                    out.append(V('C03', 'initial-step', i, exited=ex, entered=en))
                block_open = True
            elif mi == 0 and not ex and not en:
                pass  # empty step consuming an event
            else:
                if not block_open and not (mi == 0):
                    pass
                check_stab(tree, spec, m, before, i, mi, out, info, mem)
                record_memory(tree, hist_children, ex, before, mem)
        for s in en:
            if s in cur - set(ex):
                out.append(V('C03', 'entered-already-active', i, micro=mi, state=s))
        cur = (cur - set(ex)) | set(en)
    if cur != set(rec['config_after']):
        out.append(V('C03', 'configuration-differs-from-trace', i, replayed=sorted(cur),
                     actual=rec['config_after']))
    # transition order (C03.4)
    want = sorted(t_sources, key=lambda s: (-tree.depth(s), s))
    if t_sources != want:
        out.append(V('C03', 'transition-order', i, sources=t_sources, expected=want))
    if len(t_sources) >= 2:
        info.label('multi-transition step')
    if len(t_sources) >= 2 or (len(rec['log']) >= 4 and res['micro'] and
                               sum(len(m['exited']) for m in micro) >= 2 and
                               sum(len(m['entered']) for m in micro) >= 2):
        info.key('C03', (tuple(rec['config_before']), tuple(m['t'] for m in micro if m['has_t'])))


def check_exit_order(tree, ex, i, mi, out):
    pos = {s: k for k, s in enumerate(ex)}
    for s in ex:
        for a in tree.ancestors(s):
            if a in pos and pos[a] < pos[s]:
                out.append(V('C03', 'ancestor-exits-before-descendant', i, micro=mi, exited=ex,
                             pair=[a, s]))
                return
    for a in range(len(ex)):
        for b in range(a + 1, len(ex)):
            x, y = ex[a], ex[b]
            p = tree.parent[x]
            if p is not None and p == tree.parent[y] and tree.kind[p] == 'orthogonal' and x > y:
                out.append(V('C03', 'sibling-exit-order', i, micro=mi, exited=ex, pair=[x, y],
                             parent=p))
                return


def record_memory(tree, hist_children, ex, before, mem):
    for s in ex:
        if s in hist_children:
            mem[s] = set(before) & tree.descendants(s)


def check_stab(tree, spec, m, before, i, mi, out, info, mem):
    """a stabilisation micro step must be one documented default entry (C02/C03/C06)"""
    ex, en = m['exited'], m['entered']
    st = tree.states
    if ex and not en:
        # emptying on a final child of the root
        ok = (len(ex) >= 1 and tree.kind.get(ex[0]) == 'final' and tree.parent[ex[0]] == tree.root
              and set(ex) == before)
        if not ok:
            out.append(V('C02', 'unjustified-stabilisation', i, micro=mi, exited=ex, entered=en))
        else:
            info.label('emptied on root final')
            info.key('C02', ('final', tuple(sorted(before))))
        return
    if len(ex) == 1 and tree.kind.get(ex[0]) in HISTORY:
        h = ex[0]
        p = tree.parent[h]
        kind = tree.kind[h]
        info.label('history replaced (%s)' % kind)
        snap = mem.get(p)
        if snap is None:
            want = [st[h]['memory']]
            if en != want:
                out.append(V('C06', 'default-memory', i, micro=mi, history=h, entered=en,
                             expected=want))
            info.label('history default memory')
        elif kind == 'shallow':
            want = sorted(c for c in tree.children[p] if c in snap)
            if en != want:
                out.append(V('C06', 'shallow-restore', i, micro=mi, history=h, entered=en,
                             expected=want))
            if want != [st[p]['initial']]:
                info.key('C06', ('sh', h, tuple(want)))
        else:
            if set(en) != snap or len(set(en)) != len(en):
                out.append(V('C06', 'deep-restore', i, micro=mi, history=h, entered=en,
                             expected=sorted(snap)))
            else:
                pos = {s: k for k, s in enumerate(en)}
                for s in en:
                    q = tree.parent[s]
                    if q in pos and pos[q] > pos[s]:
                        out.append(V('C06', 'deep-restore-order', i, micro=mi, history=h,
                                     entered=en))
                        break
                else:
                    # children of one orthogonal state are entered in name order (C03)
                    for a in range(len(en)):
                        for b in range(a + 1, len(en)):
                            q = tree.parent[en[a]]
                            if q == tree.parent[en[b]] and tree.kind[q] == 'orthogonal' \
                                    and en[a] > en[b]:
                                out.append(V('C03', 'sibling-entry-order', i, micro=mi,
                                             entered=en, parent=q, history=h))
                                break
                        else:
                            continue
                        break
            info.key('C06', ('dp', h, tuple(sorted(snap))))
        info.key('C02', ('hist', h, tuple(sorted(before))))
        return
    if not ex and en:
        # default entries: every entered state must be, in sequence, the initial child of an active
        # compound state without active child, or a not yet active child of an active orthogonal
        # state; children of one orthogonal state appear in name order (C03)
        cur = set(before)
        ok = True
        for s_ in en:
            p = tree.parent.get(s_)
            if p is None or p not in cur or s_ in cur:
                ok = False
                break
            if tree.kind[p] == 'compound':
                if (cur & set(tree.children[p])) or s_ != st[p]['initial']:
                    ok = False
                    break
            elif tree.kind[p] != 'orthogonal':
                ok = False
                break
            cur.add(s_)
        if ok:
            # an orthogonal state must get all of its missing children in the same micro step
            for p in set(tree.parent[s_] for s_ in en):
                if tree.kind[p] == 'orthogonal':
                    got = [s_ for s_ in en if tree.parent[s_] == p]
                    missing = sorted(set(tree.children[p]) - before)
                    if sorted(got) != missing:
                        ok = False
                    elif got != missing:
                        out.append(V('C03', 'sibling-entry-order', i, micro=mi, entered=en,
                                     parent=p))
                    info.key('C02', ('orth', p, tuple(sorted(before))))
        if ok:
            return
    out.append(V('C02', 'unjustified-stabilisation', i, micro=mi, exited=ex, entered=en,
                 current=sorted(before)))


def check_step(drive, rec, i, out, info, mem, state):
    tree, spec = drive.tree, drive.spec
    qm = drive.qm
    T = rec['T']
    E = rec['_head']
    C = set(rec['config_before'])
    by_tid = drive.by['tid']
    res = rec['result']

    # frozen time seen by code (also C13's business; cheap here)
    for x in rec['log']:
        if x[0] in ('en', 'ex', 'tr') and x[3] != T:
            out.append(V('C03', 'fragment-saw-other-time', i, saw=x[3], step_time=T))
            break

    if not rec['started_before']:
        if rec['exc']:
            out.append(V('C02', 'initial-step-raised', i, exc=rec['exc'], msg=str(rec['exc_obj'])))
            return 'abort'
        if res is None or res['event'] is not None or any(m['has_t'] for m in res['micro']):
            out.append(V('C01', 'initial-step-shape', i, result=res))
            return 'abort'
        check_block_structure(tree, spec, rec, i, out, info, mem)
        bad = R.legal(tree, rec['config_after'])
        if bad:
            out.append(V('C02', 'illegal-configuration', i, problems=bad,
                         configuration=rec['config_after']))
        register_sends(drive, rec, T)
        return None

    gv = rec['gv']
    if any(t.get('aguard') for t in spec['transitions']):
        # guards of the form gv[tid] and active(X): X is looked up in the configuration the step
        # starts from
        gv = dict(gv)
        for t in spec['transitions']:
            if t.get('aguard') is not None:
                gv[t['id']] = gv[t['id']] and (t['aguard'] in C)
    sel = R.select(tree, spec, C, E['name'] if E else None, gv)
    fired = sel['fired']
    fired_ids = sorted(t['id'] for t in fired)
    adm = R.classify(tree, fired) if len(fired) >= 2 else {'ok'}
    info.label('steps')
    if len(sel['enabled_all']) >= 2:
        depths = set(tree.depth(t['source']) for t in sel['enabled_all'])
        prios = set(R.prio_value(t.get('priority')) for t in sel['enabled_all'])
        classes = set(t.get('event') is None for t in sel['enabled_all'])
        if len(depths) > 1 or len(prios) > 1 or len(classes) > 1:
            info.label('step with >=2 enabled differing in depth/priority/class')
            info.key('C01', (tuple(sorted(C)), E['name'] if E else None,
                             tuple(sorted(t['id'] for t in sel['enabled_all']))))
    if len(fired) >= 2:
        info.label('step with >=2 fired')
        info.key('C04', (tuple(sorted(C)), tuple(fired_ids)))
        for a in sorted(adm):
            info.label('fired set classified ' + a)

    if rec['exc']:
        exc = rec['exc']
        ok = any(EXC_OF[a] == exc for a in adm if a in EXC_OF)
        if not ok:
            if exc in EXC_OF.values():
                out.append(V(['C04', 'C01'], 'spurious-error', i, exc=exc, fired=fired_ids,
                             admissible=sorted(adm), configuration=sorted(C)))
            else:
                out.append(V('*', 'wrong-exception', i, exc=exc, msg=str(rec['exc_obj'])[:300],
                             fired=fired_ids, admissible=sorted(adm), configuration=sorted(C),
                             same_source=same_source(fired)))
            return 'abort'
        # atomicity of the rejection
        if set(rec['config_after']) != C or rec['log'] or rec['v_after'] != rec['v_before']:
            out.append(V('C04', 'error-not-atomic', i, exc=exc, log=rec['log'],
                         before=sorted(C), after=rec['config_after']))
            return 'abort'
        if [n for n in rec.get('meta', []) if n != 'step started']:
            out.append(V('C04', 'error-not-atomic', i, exc=exc, meta_events=rec['meta']))
            return 'abort'
        state['after_error'] = E
        info.label('error step (' + exc + ')')
        return 'error'

    # normal return
    if 'ok' not in adm:
        out.append(V('C04', 'missing-error', i, fired=fired_ids, admissible=sorted(adm),
                     configuration=sorted(C), same_source=same_source(fired),
                     result_transitions=[m['t'] for m in (res or {'micro': []})['micro']
                                         if m['has_t']]))
        return 'abort'

    # ---- C01
    got_ids = sorted(m['t'] for m in res['micro'] if m['has_t']) if res else []
    if got_ids != fired_ids:
        out.append(V('C01', 'fired-set', i, fired=got_ids, expected=fired_ids,
                     configuration=sorted(C), event=E['name'] if E else None, gv=rec['gv']))
        return 'abort'
    consume = (E is not None) and not (fired and sel['eventless'])
    if res is None:
        if fired or E is not None:
            out.append(V(['C01', 'C05'], 'none-returned', i, expected_fired=fired_ids,
                         pending=E['uid'] if E else None))
            return 'abort'
    else:
        ev = res['event']
        if consume:
            if ev is None or ev['data'].get('uid') != E['uid'] or ev['name'] != E['name'] \
                    or (ev['cls'] == 'InternalEvent') != (E['kind'] == 'int'):
                out.append(V('C05', 'wrong-event-consumed', i, consumed=ev, expected=dict(E)))
                return 'abort'
            if E['due'] > res['time']:
                out.append(V('C05', 'consumed-before-due', i, due=E['due'], time=res['time']))
            qm.pop(E)
            info.label('event consumed')
            if E['kind'] == 'ext' and any(p_['name'] == E['name'] and p_['due'] > T
                                          for p_ in qm.q['int']):
                info.label('external event consumed while an internal one of that name is '
                           'pending, not yet due')
            if not fired:
                info.label('event consumed by empty step')
        else:
            if ev is not None:
                out.append(V(['C01', 'C05', 'C03'], 'event-consumed-unexpectedly', i,
                             consumed=ev, eventless=sel['eventless']))
                return 'abort'
            if not fired:
                out.append(V('C01', 'step-without-cause', i, result=res))
                return 'abort'
        evs = [m['event'] for m in res['micro'] if m['event'] is not None]
        if any(e != res['event'] for e in evs):
            out.append(V(['C05', 'C03'], 'several-events-in-step', i, events=evs))
        if res['time'] != T:
            out.append(V('C03', 'step-time', i, time=res['time'], clock=T))
    # guard visibility
    for g in rec['glog']:
        t = by_tid.get(g[0])
        if t is None:
            continue
        if t.get('event') is None:
            if g[1] is not None or g[2] is not None:
                out.append(V('C01', 'eventless-guard-saw-event', i, tid=g[0], saw=list(g[1:])))
        else:
            if E is None or (g[1], g[2]) != (E['name'], E['uid']):
                out.append(V('C01', 'guard-saw-other-event', i, tid=g[0], saw=list(g[1:]),
                             pending=dict(E) if E else None))
    if res is not None:
        check_block_structure(tree, spec, rec, i, out, info, mem)
        register_sends(drive, rec, T)
    bad = R.legal(tree, rec['config_after'])
    if bad:
        out.append(V('C02', 'illegal-configuration', i, problems=bad,
                     configuration=rec['config_after'],
                     micro=[[m['t'], m['exited'], m['entered']] for m in (res or {'micro': []})
                            ['micro']]))
    if not rec['config_after'] and not rec['final']:
        out.append(V('C02', 'empty-but-not-final', i))
    if rec['config_after'] and rec['final']:
        out.append(V('C02', 'final-but-not-empty', i))
    if state.get('was_final') and rec['config_after']:
        out.append(V('C02', 'left-final', i, configuration=rec['config_after']))
    if not rec['config_after']:
        if state.get('was_final'):
            info.label('step after final')
        state['was_final'] = True
    return None


def same_source(fired):
    src = [t['source'] for t in fired]
    return len(set(src)) != len(src)


def register_sends(drive, rec, T):
    """feed the queue model with the internal events the executed fragments sent"""
    for e in sends_from_log(drive.by, rec['log']):
        if e['cls'] == 'InternalEvent':
            drive.qm.push('int', T + e['data'].get('delay', 0), e['data'].get('uid'), e['name'])


FAULT_EXC = {'inv': ('InvariantError',), 'ipre': ('PreconditionError',),
             'ipost': ('PostconditionError',), 'iboom': ('CodeEvaluationError',)}


def resync(d, mem, state):
    """after a step that raised: take the queues and the history memories over from the
    interpreter (they are what the next steps start from)"""
    it, qm, tree = d.interp, d.qm, d.tree
    for kind, q in (('int', it._internal_queue), ('ext', it._external_queue)):
        new = []
        for due, ev in q:
            qm.seq += 1
            new.append({'kind': kind, 'due': due, 'seq': qm.seq, 'uid': ev.data.get('uid'),
                        'name': ev.name})
        qm.q[kind] = new
    mem.clear()
    for deep_first in (True, False):
        for h, names in it._memory.items():
            p = tree.parent.get(h)
            if p is None:
                continue
            if (tree.kind[h] == 'deep') == deep_first and (deep_first or p not in mem):
                mem[p] = set(names)
    if not it.configuration and it.final:
        state['was_final'] = True


def used_and_edited(spec, sc, prerun=True):
    """The Statechart object is first executed by a throw-away interpreter, then edited through
    the public API and edited back (a composite state moved to another parent and back, a state
    renamed and renamed back): structurally the same statechart, on a used object.  With
    prerun=False the object is not executed first; instead every derived query is asked while
    the state sits under its temporary parent.  Returns
    (statechart, True) or (a fresh statechart, False) if no such edit applies."""
    from .spec import from_statechart
    tree = Tree(spec)
    sc = sc if sc is not None else to_statechart(spec)

    def view(x):
        o = from_statechart(x)
        return (sorted((s['name'], s['kind'], s['parent'], s['initial'], s['memory'])
                       for s in o['states']),
                sorted(repr([t['source'], t['target'], t['event'], t['guard'], t['action'],
                             t['priority']]) for t in o['transitions']))
    before = view(sc)
    try:
        pre = Drive(spec, sc=sc)
        n = len(spec['transitions'])
        for k in range(4 if prerun else 0):
            pre.queue('e%d' % (k % 2), uid='pre%d' % k)
            try:
                pre.step([True] * n)
            except Exception:
                break
        used = set(s['initial'] for s in spec['states'] if s.get('initial')) | \
            set(s['memory'] for s in spec['states'] if s.get('memory'))
        y = spec['states'][len(spec['states']) // 2]['name']
        sc.rename_state(y, y + '~')
        if not prerun:
            for q in sc.states:
                sc.depth_for(q), sc.descendants_for(q)
        sc.rename_state(y + '~', y)
        moved = False
        for x in spec['states']:
            name, p = x['name'], x['parent']
            if p is None or x['kind'] not in ('compound', 'orthogonal', 'basic') or name in used:
                continue
            if x['kind'] == 'basic' and moved:
                continue
            others = [q['name'] for q in spec['states']
                      if q['kind'] in ('compound', 'orthogonal') and q['name'] != p
                      and q['name'] not in tree.desc_or_self(name)]
            if not others:
                continue
            sc.move_state(name, others[len(name) % len(others)])
            if not prerun:
                for q in sc.states:
                    sc.depth_for(q), sc.descendants_for(q), sc.least_common_ancestor(q, name)
            sc.move_state(name, p)
            moved = True
            if x['kind'] != 'basic':
                break
        sc.validate()
        if view(sc) == before:
            return sc, True
    except Exception:
        pass
    return to_statechart(spec), False


def run_core(case, build=None, epilogue=False, want=None):
    """Run the case; returns (violations, info, records)."""
    if case.get('empty_event'):
        # the event named '' is an event like any other (only None means "eventless")
        import copy as _copy
        case = _copy.deepcopy(case)
        for t in case['spec']['transitions']:
            if t.get('event') == 'e1':
                t['event'] = ''
        for o in case['spec']['states'] + case['spec']['transitions']:
            for key in ('sends', 'sends_entry', 'sends_exit'):
                for s_ in o.get(key) or []:
                    if s_.get('kind', 'send') == 'send' and s_['name'] == 'e1':
                        s_['name'] = ''
        case['ops'] = [[op[0], ''] + list(op[2:]) if op[0] == 'q' and op[1] == 'e1' else op
                       for op in case['ops']]
    spec = probes.instrument(case['spec'])
    # "ambient" features that must not change what a step does: in a quarter of the cases the
    # chart runs with contract checking on (conditions that hold, reading __old__ and sent()),
    # in another quarter with a property statechart bound and a second interpreter bound to
    # receive its internal events
    ambient = case.get('ambient', {1: 'contracts', 2: 'monitored'}.get(len(case['ops']) % 4))
    # injected faults (see gen.faults): steps that raise but leave a legal configuration behind;
    # the model is re-synchronised from the interpreter and the following steps are checked in full
    faults = {int(i): k for i, k in case.get('faults') or []}
    if any(k in ('inv', 'ipre', 'ipost') for k in faults.values()):
        ambient = 'contracts'
    if ambient == 'contracts':
        for x in spec['states']:
            x['pre'] = list(x.get('pre') or []) + ['v >= 0']
            x['inv'] = list(x.get('inv') or []) + [
                "(__old__.v <= v or sent('zz')) and not fv.get('inv')"]
            x['post'] = list(x.get('post') or []) + ['__old__.v <= v']
        for t in spec['transitions']:
            t['pre'] = list(t.get('pre') or []) + ["v >= 0 and not received('zz')"]
            t['inv'] = list(t.get('inv') or []) + ['__old__.v <= v']
            t['post'] = list(t.get('post') or []) + ["__old__.v < v and not sent('zz')"]
            if t.get('target') is None:
                t['pre'].append("fv.get('int') != 'pre'")
                t['post'].append("fv.get('int') != 'post'")
    if 'iboom' in faults.values():
        for t in spec['transitions']:
            if t.get('target') is None:
                t['action'] = (t.get('action') or 'pass') + \
                    "\nif fv.get('int') == 'boom':\n    raise ValueError('boom')"
    sc = build(spec) if build else None
    edited = False
    if case.get('edited', len(case['ops']) % 4 == 3):
        sc, edited = used_and_edited(spec, sc, prerun=case.get('prerun', len(case['ops']) % 8 == 3))
    d = Drive(spec, sc=sc, record_meta=True, ignore_contract=ambient != 'contracts')
    out, info, mem, state = [], Info(), {}, {}
    if edited:
        info.label('runs on a statechart that was executed, edited and restored before')
    if ambient == 'contracts':
        info.label('runs with contract checking on (conditions hold)')
    if ambient == 'monitored':
        from sismic.interpreter import Interpreter
        from sismic.model import Statechart, CompoundState, BasicState, Transition
        psc = Statechart('observer')
        psc.add_state(CompoundState('r', initial='a'), None)
        psc.add_state(BasicState('a'), 'r')
        psc.add_state(BasicState('b'), 'r')
        for n in ('step started', 'event consumed', 'state entered', 'event sent'):
            psc.add_transition(Transition('a', 'b', event=n))
            psc.add_transition(Transition('b', 'a', event=n))
        d.interp.bind_property_statechart(psc)
        d.interp.bind(Interpreter(psc))
        info.label('runs with a property statechart and a bound interpreter')
    recs = []
    ntr = len(spec['transitions'])
    # in a quarter of the cases a second ("shadow") interpreter over the very same Statechart
    # object is stepped in between: interpreters must not share any state
    sh = None
    if case.get('shadow', len(case['ops']) % 4 == 0):
        sh = Drive(spec, sc=d.sc)
        info.label('runs with a shadow interpreter on the same statechart')
    i = -1
    for i, op in enumerate(case['ops']):
        if sh is not None and op[0] == 'step':
            try:
                if i % 3 == 0:
                    sh.queue('e%d' % (i % 2), uid='sh%d' % i)
                sh.advance(0.125)
                sh.step([True] * ntr)
            except Exception:
                pass
        if op[0] == 'q':
            d.queue(op[1], delay=op[2], mode=op[3], uid=op[4])
            if op[2] is not None:
                info.label('delayed external event')
        elif op[0] == 'adv':
            d.advance(op[1])
        elif op[0] == 'step':
            fault = faults.get(i)
            fv = d.ctx['fv']
            fv.clear()
            if fault == 'inv':
                fv['inv'] = True
            elif fault:
                fv['int'] = fault[1:]
            rec = d.step(op[1])
            fv.clear()
            recs.append(rec)
            if fault and rec['exc'] in FAULT_EXC.get(fault, ()):
                info.label('fault step (%s): %s' % (fault, rec['exc']))
                bad = R.legal(d.tree, rec['config_after']) if rec['config_after'] else None
                if bad:
                    # by construction these faults strike where the configuration is legal
                    out.append(V('*', 'fault-left-illegal-configuration', i, fault=fault,
                                 problems=bad, configuration=rec['config_after']))
                    break
                resync(d, mem, state)
                continue
            r = check_step(d, rec, i, out, info, mem, state)
            if r == 'abort':
                break
            if r == 'error':
                # C04: nothing was consumed -- an all-guards-false step must consume exactly E
                rec2 = d.step([False] * ntr)
                recs.append(rec2)
                r2 = check_step(d, rec2, i, out, info, mem, state)
                if r2 == 'abort':
                    break
        if any(concerns(v, want) for v in out) if want else out:
            break
    if epilogue and not out and d.started:
        run_epilogue(d, i + 1, out, info, mem, state, recs)
    info.final_drive = d
    return out, info, recs


def run_epilogue(d, i, out, info, mem, state, recs):
    """C05: all guards false, clock past every due time: every event is consumed exactly once"""
    ntr = len(d.spec['transitions'])
    pend = d.qm.pending()
    if pend:
        far = max(e['due'] for e in pend)
        if far > d.interp.clock.time:
            d.interp.clock.time = far
    budget = len(d.qm.pending()) + 3
    while budget > 0:
        budget -= 1
        rec = d.step([False] * ntr)
        recs.append(rec)
        r = check_step(d, rec, i, out, info, mem, state)
        if r == 'abort' or out:
            return
        if rec['returned_none']:
            break
    left = d.qm.pending()
    if left:
        out.append(V('C05', 'events-never-consumed', i, left=[dict(e) for e in left]))
    uids = [e['uid'] for e in d.qm.consumed if e['uid'] is not None]
    if len(set(uids)) != len(uids):
        out.append(V('C05', 'event-consumed-twice', i, uids=uids))


def core_oracle(case, prop, build=None, epilogue=False, props=None):
    """standard oracle result for a core property: violations tagged `prop` (or in `props`)"""
    from .cli import sha
    want = set(props or [prop])
    out, info, recs = run_core(case, build=build, epilogue=epilogue, want=want)
    viol = [v for v in out if concerns(v, want)]
    h = sha(case['spec'])
    keys = [sha([h, k]) for k in info.keys.get(prop, ())]
    sample = None
    if keys:
        sample = {'spec': compact_spec(case['spec']), 'ops': case['ops'][:12],
                  'n_ops': len(case['ops'])}
    return {'violations': viol, 'labels': info.labels, 'keys': keys, 'sample': sample,
            'other_props': sorted(set(v['prop'] for v in out) - want - {'*'})}


def compact_spec(spec):
    """short human-readable rendering of a chart spec for evidence samples"""
    return {'states': ['%s:%s<%s%s' % (s['name'], s['kind'], s.get('parent'),
                                       (' init=%s' % s['initial']) if s.get('initial') else
                                       (' mem=%s' % s['memory']) if s.get('memory') else '')
                       for s in spec['states']],
            'transitions': ['%d:%s-%s%s->%s' % (t['id'], t['source'], t.get('event') or '',
                                                 '' if t.get('priority') in (0, None)
                                                 else '[p=%s]' % t['priority'], t.get('target'))
                            for t in spec['transitions']]}
