"""Runner: sharding over processes, Hypothesis driving, shrinking, replay, evidence, known findings.

Usage (through /verif/check):
    ./check <ID> [--tier quick|thorough] [--seed N] [--workers N] [--examples N]
    ./check <ID> --replay <file>
    ./check --setup
Exit codes: 0 held on everything explored; 1 violation (``VIOLATION property=<ID> replay=<path>``);
2 harness error.
"""
import argparse
import hashlib
import importlib
import json
import multiprocessing
import os
import sys
import time
import traceback

HERE = os.path.dirname(os.path.dirname(os.path.abspath(__file__)))


class Found(Exception):
    """raised inside the Hypothesis test when the oracle reports an unknown violation"""


class CaseTimeout(BaseException):
    """one oracle call exceeded CASE_TIMEOUT seconds (inconclusive case, never a violation)"""


class ShrinkTimeout(BaseException):
    """the shrink phase exceeded its wall-clock budget: report the smallest failure seen so far"""


CASE_TIMEOUT = 60
SHRINK_BUDGET = {'quick': 60, 'thorough': 240}


def _on_alarm(signum, frame):
    # re-arm first: an exception raised while a gc callback is running is swallowed by CPython
    # ("Exception ignored in ..."), so keep firing until the case is actually abandoned
    import signal
    signal.setitimer(signal.ITIMER_REAL, 2)
    raise CaseTimeout()


def _on_usr2(signum, frame):
    raise ShrinkTimeout()


def canon(x):
    return json.dumps(x, sort_keys=True, default=repr, separators=(',', ':'))


def sha(x):
    return hashlib.sha1(canon(x).encode()).hexdigest()[:16]


def load_prop(pid):
    return importlib.import_module('vf.props.' + pid.lower())


def jsonable(x):
    return json.loads(json.dumps(x, default=repr))


def evaluate(mod, case, known):
    """run the oracle on one case; split violations into known / unknown"""
    r = mod.oracle(case)
    unknown, matched = [], []
    for v in r.get('violations', []):
        f = known.match(mod.PROP, v, case)
        if f is None:
            unknown.append(v)
        else:
            matched.append((f, v))
    return r, unknown, matched


def worker(args):
    pid, tier, seed, n_examples, widx, time_cap = args
    t0 = time.time()
    res = {'evaluations': 0, 'labels': {}, 'keys': set(), 'samples': [], 'fail': None,
           'error': None, 'known': {}, 'nontrivial_cases': 0, 'inconclusive': False,
           'excluded_known': 0, 'widx': widx}
    try:
        if os.environ.get('VERIF_DEBUG'):
            import faulthandler
            import signal
            faulthandler.register(signal.SIGUSR1, all_threads=True)
            faulthandler.dump_traceback_later(150, repeat=True,
                                              file=open('/tmp/hang-%d.txt' % os.getpid(), 'w'))
        import signal
        import threading
        signal.signal(signal.SIGALRM, _on_alarm)
        signal.signal(signal.SIGUSR2, _on_usr2)
        watchdog = []
        import hypothesis
        from hypothesis import given, settings, HealthCheck, Phase
        import hypothesis.internal.conjecture.engine as eng
        from vf import known as K
        mod = load_prop(pid)
        known = K.Known()
        eng.MAX_SHRINKING_SECONDS = 45 if tier == 'quick' else 180
        last = {}

        def body(case):
            if time.time() - t0 > time_cap:
                res['inconclusive'] = True
                return
            signal.setitimer(signal.ITIMER_REAL, getattr(mod, 'CASE_TIMEOUT', CASE_TIMEOUT))
            try:
                r, unknown, matched = evaluate(mod, case, known)
            except CaseTimeout:
                res['labels']['cases timed out (inconclusive)'] = res['labels'].get(
                    'cases timed out (inconclusive)', 0) + 1
                res['inconclusive'] = True
                save_timeout(pid, case)
                return
            finally:
                signal.setitimer(signal.ITIMER_REAL, 0)
            res['evaluations'] += 1
            for k, n in (r.get('labels') or {}).items():
                res['labels'][k] = res['labels'].get(k, 0) + n
            keys = r.get('keys') or []
            if keys:
                res['nontrivial_cases'] += 1
                if len(res['samples']) < 2 and not matched:
                    res['samples'].append(jsonable(r.get('sample', case)))
            for k in keys:
                res['keys'].add(k)
            for f, v in matched:
                res['known'][f] = res['known'].get(f, 0) + 1
            if matched:
                res['excluded_known'] += 1
            if unknown:
                size = len(canon(jsonable(case)))
                if 'case' not in last or size <= last['size']:
                    last['case'], last['violations'], last['size'] = case, unknown, size
                if not watchdog:
                    # Hypothesis' own shrink deadline is only checked between test calls; a hard
                    # wall-clock budget makes sure the check terminates
                    t = threading.Timer(SHRINK_BUDGET[tier],
                                        lambda: os.kill(os.getpid(), signal.SIGUSR2))
                    t.daemon = True
                    t.start()
                    watchdog.append(t)
                raise Found(unknown[0]['kind'])

        phases = [Phase.generate, Phase.shrink]
        test = given(mod.strategy(tier))(body)
        test = hypothesis.seed(seed)(test)
        test = settings(max_examples=n_examples, database=None, deadline=None, phases=phases,
                        report_multiple_bugs=False, derandomize=False, print_blob=False,
                        suppress_health_check=list(HealthCheck))(test)
        try:
            try:
                test()
            finally:
                for t in watchdog:
                    t.cancel()
        except (Found, ShrinkTimeout) as e:
            if isinstance(e, ShrinkTimeout):
                res['labels']['shrinking stopped at its wall-clock budget'] = 1
            res['fail'] = {'case': jsonable(last['case']),
                           'violations': jsonable(last['violations'])}
        except (Exception, MemoryError):
            # a crash inside Hypothesis' shrinker must not hide a failure that was already found
            if 'case' not in last:
                raise
            res['labels']['shrinker crashed; unshrunk failure reported'] = 1
            if os.environ.get('VERIF_DEBUG'):
                sys.stderr.write('SHRINK-CRASH in worker %d:\n%s\n' % (widx, traceback.format_exc()))
            res['fail'] = {'case': jsonable(last['case']),
                           'violations': jsonable(last['violations'])}
        from vf import probes as _pr
        if _pr.RUNAWAYS:
            res['labels']['runaway macro steps (probe log limit hit)'] = len(_pr.RUNAWAYS)
        if hasattr(mod, 'extra'):
            ex = mod.extra(tier, seed, widx)
            if ex:
                merge_extra(res, ex)
    except Exception:
        res['error'] = traceback.format_exc()
    res['keys'] = list(res['keys'])
    res['wall'] = time.time() - t0
    return res


def _worker_main(job, conn):
    try:
        import resource
        lim = int(os.environ.get('VERIF_MEM_GB', '8')) << 30
        resource.setrlimit(resource.RLIMIT_AS, (lim, lim))
    except Exception:
        pass
    res = worker(job)
    try:
        conn.send(res)
    finally:
        conn.close()


def _lost(job, why):
    return {'evaluations': 0, 'labels': {why: 1}, 'keys': [], 'samples': [], 'fail': None,
            'error': None, 'known': {}, 'nontrivial_cases': 0, 'inconclusive': True,
            'excluded_known': 0, 'widx': job[4], 'wall': 0, 'lost': True}


def run_workers(jobs, deadline_s):
    """one process per shard; a shard that dies or overruns the deadline is inconclusive"""
    ctx = multiprocessing.get_context('fork')
    pending = []
    for job in jobs:
        rd, wr = ctx.Pipe(duplex=False)
        p = ctx.Process(target=_worker_main, args=(job, wr))
        p.daemon = False
        p.start()
        wr.close()
        pending.append((p, rd, job))
    results = []
    deadline = time.time() + deadline_s
    while pending:
        progressed = False
        for item in list(pending):
            p, rd, job = item
            if rd.poll(0):
                try:
                    results.append(rd.recv())
                except (EOFError, OSError):
                    results.append(_lost(job, 'worker died without a result (inconclusive shard)'))
                p.join(10)
                pending.remove(item)
                progressed = True
            elif not p.is_alive():
                results.append(_lost(job, 'worker died without a result (inconclusive shard)'))
                pending.remove(item)
                progressed = True
        if pending and time.time() > deadline:
            for p, rd, job in pending:
                p.terminate()
                p.join(5)
                if p.is_alive():
                    p.kill()
                results.append(_lost(job, 'worker exceeded the wall-clock deadline '
                                          '(inconclusive shard)'))
            pending = []
        if not progressed:
            time.sleep(0.05)
    return results


def merge_extra(res, ex):
    res['evaluations'] += ex.get('evaluations', 0)
    for k, n in (ex.get('labels') or {}).items():
        res['labels'][k] = res['labels'].get(k, 0) + n
    for k in ex.get('keys') or []:
        res['keys'].add(k)
    if ex.get('fail') and not res['fail']:
        res['fail'] = jsonable(ex['fail'])
    if ex.get('samples'):
        res['samples'].extend(jsonable(ex['samples']))


def write_evidence(pid, mod, tier, seed, merged, wall, violations, extra_cov=None):
    cov = {'evaluations': merged['evaluations'],
           'distinct_nontrivial': len(merged['keys']),
           'rule': mod.RULE,
           'samples': merged['samples'][:4] or [{'note': 'no non-trivial sample recorded'}],
           'labels': dict(sorted(merged['labels'].items())),
           'nontrivial_cases': merged['nontrivial_cases'],
           'excluded_known': merged['excluded_known'],
           'known_findings_seen': merged['known'],
           'workers': merged['workers'],
           'inconclusive': merged['inconclusive']}
    if extra_cov:
        cov.update(extra_cov)
    ev = {'property_id': pid, 'tier': tier, 'seed': seed, 'level': mod.LEVEL, 'coverage': cov,
          'assumptions': list(getattr(mod, 'ASSUMPTIONS', [])), 'wall_s': round(wall, 2),
          'violations': violations}
    os.makedirs(os.path.join(HERE, 'evidence'), exist_ok=True)
    path = os.path.join(HERE, 'evidence', pid + '.json')
    with open(path, 'w') as f:
        json.dump(ev, f, indent=1, sort_keys=True, default=repr)
        f.write('\n')
    return path


def save_timeout(pid, case):
    try:
        d = os.path.join(HERE, 'replays', 'timeouts')
        os.makedirs(d, exist_ok=True)
        with open(os.path.join(d, '%s-%s.json' % (pid, sha(jsonable(case)))), 'w') as f:
            json.dump({'property': pid, 'case': jsonable(case)}, f, default=repr)
    except Exception:
        pass


def save_replay(pid, tier, seed, fail):
    os.makedirs(os.path.join(HERE, 'replays'), exist_ok=True)
    h = sha(fail['case'])
    path = os.path.join('replays', '%s-%s.json' % (pid, h))
    with open(os.path.join(HERE, path), 'w') as f:
        json.dump({'property': pid, 'seed': seed, 'tier': tier, 'case': fail['case'],
                   'violation': fail['violations'][0], 'all_violations': fail['violations']},
                  f, indent=1, sort_keys=True, default=repr)
        f.write('\n')
    return path


def run_check(pid, tier, seed, workers, examples):
    t0 = time.time()
    mod = load_prop(pid)
    from vf import known as K
    known = K.Known()
    total = examples or mod.BUDGET[tier]
    workers = max(1, min(workers, total))
    per = max(1, total // workers)
    cap = getattr(mod, 'TIME_CAP', {'quick': 600, 'thorough': 3600})[tier]
    jobs = [(pid, tier, seed * 1000 + i, per, i, cap) for i in range(workers)]
    if workers == 1:
        results = [worker(jobs[0])]
    else:
        results = run_workers(jobs, cap * 1.5 + 420)
    merged = {'evaluations': 0, 'labels': {}, 'keys': set(), 'samples': [], 'known': {},
              'nontrivial_cases': 0, 'excluded_known': 0, 'workers': workers,
              'inconclusive': False}
    fails, errors = [], []
    for r in results:
        if r['error']:
            errors.append(r['error'])
        merged['evaluations'] += r['evaluations']
        merged['nontrivial_cases'] += r['nontrivial_cases']
        merged['excluded_known'] += r['excluded_known']
        merged['inconclusive'] = merged['inconclusive'] or r['inconclusive']
        for k, n in r['labels'].items():
            merged['labels'][k] = merged['labels'].get(k, 0) + n
        for k, n in r['known'].items():
            merged['known'][k] = merged['known'].get(k, 0) + n
        merged['keys'].update(r['keys'])
        merged['samples'].extend(r['samples'])
        if r['fail']:
            fails.append(r['fail'])
    # replay tier: committed witnesses of known / fixed findings are re-run every time
    rep = K.replay_witnesses(pid, mod, known)
    merged['labels']['witness replays'] = rep['n']
    merged['labels']['regression corpus replays'] = rep.get('regress', 0)
    for f in rep['known']:
        merged['known'][f] = merged['known'].get(f, 0) + 1
    fails.extend(rep['fails'])
    if results and all(r.get('lost') for r in results):
        print('HARNESS-ERROR property=%s: every worker was lost' % pid)
        return 2
    if errors:
        sys.stderr.write(errors[0])
        print('HARNESS-ERROR property=%s (%d worker(s))' % (pid, len(errors)))
        return 2
    for fid in sorted(merged['known']):
        print('KNOWN-FINDING: property=%s %s' % (pid, known.what(fid)))
    seen = set()
    nviol = 0
    for f in fails:
        kind = f['violations'][0]['kind']
        if kind in seen:
            continue
        seen.add(kind)
        nviol += 1
        path = save_replay(pid, tier, seed, f)
        print('VIOLATION property=%s replay=%s' % (pid, path))
        print('  kind=%s detail=%s' % (kind, canon(f['violations'][0]['detail'])[:600]))
    wall = time.time() - t0
    path = write_evidence(pid, mod, tier, seed, merged, wall, nviol)
    print('%s %s tier=%s seed=%d evaluations=%d distinct_nontrivial=%d wall=%.1fs evidence=%s' % (
        pid, 'VIOLATED' if nviol else 'held', tier, seed, merged['evaluations'],
        len(merged['keys']), wall, os.path.relpath(path, HERE)))
    return 1 if nviol else 0


def run_replay(pid, path):
    mod = load_prop(pid)
    from vf import known as K
    known = K.Known()
    with open(path) as f:
        data = json.load(f)
    case = data['case'] if 'case' in data else data
    r, unknown, matched = evaluate(mod, case, known)
    for fid in sorted(set(f for f, _ in matched)):
        print('KNOWN-FINDING: property=%s %s' % (pid, known.what(fid)))
    if unknown:
        print('VIOLATION property=%s replay=%s' % (pid, path))
        for v in unknown[:5]:
            print('  kind=%s step=%s detail=%s' % (v['kind'], v.get('step'),
                                                 canon(v['detail'])[:1000]))
        return 1
    print('%s replay held: %s' % (pid, path))
    return 0


def setup():
    ok = True
    try:
        import hypothesis  # noqa
    except ImportError:
        import subprocess
        subprocess.call([sys.executable, '-m', 'pip', 'install', '--no-index', '--find-links',
                         '/opt/veriftools/wheels', 'hypothesis'])
    try:
        import hypothesis
        import sismic
        import ruamel.yaml  # noqa
        print('setup ok: hypothesis %s, sismic from %s' % (hypothesis.__version__,
                                                           os.path.dirname(sismic.__file__)))
    except Exception as e:
        print('setup failed: %r' % (e,))
        ok = False
    return 0 if ok else 2


def main(argv=None):
    ap = argparse.ArgumentParser()
    ap.add_argument('prop', nargs='?')
    ap.add_argument('--tier', default=os.environ.get('VERIF_TIER') or 'quick',
                    choices=['quick', 'thorough'])
    ap.add_argument('--seed', type=int, default=None)
    ap.add_argument('--workers', type=int, default=int(os.environ.get('VERIF_WORKERS', '16')))
    ap.add_argument('--examples', type=int, default=None)
    ap.add_argument('--replay')
    ap.add_argument('--setup', action='store_true')
    a = ap.parse_args(argv)
    if a.setup:
        return setup()
    if not a.prop:
        ap.error('property id required')
    seed = a.seed if a.seed is not None else int(os.environ.get('VERIF_SEED') or '1')
    try:
        if a.replay:
            return run_replay(a.prop.upper(), a.replay)
        return run_check(a.prop.upper(), a.tier, seed, a.workers, a.examples)
    except Exception:
        traceback.print_exc()
        print('HARNESS-ERROR property=%s' % a.prop)
        return 2


if __name__ == '__main__':
    sys.exit(main())
