"""Chart specifications (plain JSON-able dicts), tree queries, the well-formedness predicate of
DESIGN.md section 2, and builders towards sismic (API calls or YAML text).

A spec is::

    {"name": str, "description": str|None, "preamble": str|None,
     "states": [ {"name", "kind", "parent", "initial", "memory",
                  "on_entry", "on_exit", "pre": [..], "post": [..], "inv": [..],
                  # abstract annotations rendered by vf.probes (optional)
                  "sends_entry": [...], "sends_exit": [...]} ...],   # parents before children
     "transitions": [ {"id", "source", "target", "event", "guard", "action", "priority",
                       "pre", "post", "inv", "sends": [...]} ...]}

The order of ``states`` (per parent) and of ``transitions`` is the *declaration order*.
Nothing in this module imports sismic at import time.
"""
import copy

KINDS = ('basic', 'compound', 'orthogonal', 'final', 'shallow', 'deep')
COMPOSITE = ('compound', 'orthogonal')
HISTORY = ('shallow', 'deep')
TRANSITION_OWNERS = ('basic', 'compound', 'orthogonal')


class Tree:
    """Tree queries over a spec, computed from the spec only (never from sismic)."""

    def __init__(self, spec):
        self.spec = spec
        self.states = {s['name']: s for s in spec['states']}
        self.order = [s['name'] for s in spec['states']]
        self.parent = {s['name']: s.get('parent') for s in spec['states']}
        self.kind = {s['name']: s['kind'] for s in spec['states']}
        self.children = {n: [] for n in self.order}
        self.root = None
        for s in spec['states']:
            p = s.get('parent')
            if p is None:
                self.root = s['name']
            else:
                self.children[p].append(s['name'])
        self._depth = {}
        self._anc = {}
        self._desc = {}

    def ancestors(self, n):
        """strict ancestors, nearest first"""
        r = self._anc.get(n)
        if r is None:
            r = []
            p = self.parent[n]
            while p is not None:
                r.append(p)
                p = self.parent[p]
            self._anc[n] = r
        return r

    def depth(self, n):
        return len(self.ancestors(n)) + 1

    def descendants(self, n):
        """strict descendants (set)"""
        r = self._desc.get(n)
        if r is None:
            r = set()
            todo = list(self.children[n])
            while todo:
                c = todo.pop()
                r.add(c)
                todo.extend(self.children[c])
            self._desc[n] = r
        return r

    def desc_or_self(self, n):
        return self.descendants(n) | {n}

    def is_ancestor(self, a, b):
        """a is a strict ancestor of b"""
        return a in self.ancestors(b)

    def lca(self, a, b):
        """deepest *strict* ancestor of a that is also a strict ancestor of b (None if none)"""
        bb = set(self.ancestors(b))
        for x in self.ancestors(a):
            if x in bb:
                return x
        return None

    def child_towards(self, top, n):
        """the child of `top` (or the root when top is None) that is n or an ancestor of n"""
        cur = n
        for x in self.ancestors(n):
            if x == top:
                return cur
            cur = x
        if top is None:
            return cur
        raise ValueError('%r is not below %r' % (n, top))

    def region_of(self, orth, n):
        return self.child_towards(orth, n)

    def different_regions(self, a, b):
        """a and b lie under two different children of a common orthogonal state"""
        if a == b or self.is_ancestor(a, b) or self.is_ancestor(b, a):
            return False
        l = self.lca(a, b)
        return l is not None and self.kind[l] == 'orthogonal'

    def crosses_regions(self, source, target):
        """W8: source and target strict descendants of an orthogonal state, under two children"""
        if target is None:
            return False
        for o in self.ancestors(source):
            if self.kind[o] == 'orthogonal' and o in self.ancestors(target):
                if self.child_towards(o, source) != self.child_towards(o, target):
                    return True
        return False


def well_formed(spec):
    """Return the list of violated rules W1..W9 (empty list = well-formed)."""
    bad = []
    names = [s.get('name') for s in spec['states']]
    if any((not isinstance(n, str)) or n == '' for n in names):
        bad.append('W1 name')
    if len(set(names)) != len(names):
        bad.append('W1 unique')
        return bad
    roots = [s for s in spec['states'] if s.get('parent') is None]
    if len(roots) != 1:
        bad.append('W1 root')
        return bad
    seen = set()
    for s in spec['states']:
        if s.get('parent') is not None and s['parent'] not in seen:
            bad.append('W1 parent-order %s' % s['name'])
            return bad
        seen.add(s['name'])
    t = Tree(spec)
    for s in spec['states']:
        n, k = s['name'], s['kind']
        if k not in KINDS:
            bad.append('kind %s' % n)
        ch = t.children[n]
        if k in COMPOSITE:
            if not ch:
                bad.append('W2 empty composite %s' % n)
        elif ch:
            bad.append('W2 children of non composite %s' % n)
        if k == 'compound':
            if s.get('initial') not in ch:
                bad.append('W3 initial %s' % n)
        if k == 'orthogonal':
            for c in ch:
                if t.kind[c] not in ('basic', 'compound', 'orthogonal'):
                    bad.append('W4 region %s' % c)
        if k in HISTORY:
            p = t.parent[n]
            if p is None or t.kind[p] != 'compound':
                bad.append('W5 history parent %s' % n)
            else:
                m = s.get('memory')
                if m is None or m == n or m not in t.children[p] or t.kind[m] in HISTORY:
                    bad.append('W5 memory %s' % n)
    for tr in spec['transitions']:
        src, tgt = tr['source'], tr.get('target')
        if src not in t.states or t.kind[src] not in TRANSITION_OWNERS:
            bad.append('W7 source %r' % (tr['id'],))
            continue
        if tgt is not None and tgt not in t.states:
            bad.append('W7 target %r' % (tr['id'],))
            continue
        if tgt is not None and t.kind[tgt] in HISTORY:
            p = t.parent[tgt]
            if src == p or src in t.descendants(p):
                bad.append('W6 %r' % (tr['id'],))
        if t.crosses_regions(src, tgt):
            bad.append('W8 %r' % (tr['id'],))
        ev = tr.get('event')
        if ev is not None and (not isinstance(ev, str) or ev == '' or ev.strip() != ev):
            bad.append('W9 event %r' % (tr['id'],))
        pr = tr.get('priority', 0)
        if not (pr in ('high', 'low') or (isinstance(pr, int) and not isinstance(pr, bool))):
            bad.append('W9 priority %r' % (tr['id'],))
    return bad


def prio_value(p):
    if p == 'high':
        return 1
    if p == 'low':
        return -1
    return 0 if p is None else p


# ------------------------------------------------------------------------------------ builders

def _state_obj(model, s):
    k = s['kind']
    kw = dict(on_entry=s.get('on_entry'), on_exit=s.get('on_exit'))
    n = s['name']
    if k == 'basic':
        o = model.BasicState(n, **kw)
    elif k == 'compound':
        o = model.CompoundState(n, initial=s.get('initial'), **kw)
    elif k == 'orthogonal':
        o = model.OrthogonalState(n, **kw)
    elif k == 'final':
        o = model.FinalState(n, **kw)
    elif k == 'shallow':
        o = model.ShallowHistoryState(n, memory=s.get('memory'), **kw)
    elif k == 'deep':
        o = model.DeepHistoryState(n, memory=s.get('memory'), **kw)
    else:
        raise ValueError(k)
    o.preconditions.extend(s.get('pre') or [])
    o.postconditions.extend(s.get('post') or [])
    o.invariants.extend(s.get('inv') or [])
    return o


def reorder(spec, state_keys=None, trans_perm=None):
    """Return a copy of the spec with another declaration order.

    state_keys: dict name -> sortable key; siblings are declared by increasing key (parents
    always before children).  trans_perm: permutation (list of indexes) of the transitions."""
    spec = copy.deepcopy(spec)
    if state_keys is not None:
        t = Tree(spec)
        out = []

        def walk(n):
            out.append(t.states[n])
            for c in sorted(t.children[n], key=lambda c: state_keys[c]):
                walk(c)
        walk(t.root)
        spec['states'] = out
    if trans_perm is not None:
        spec['transitions'] = [spec['transitions'][i] for i in trans_perm]
    return spec


def to_statechart(spec, breadth_first=False):
    """Build a sismic Statechart through add_state / add_transition in declaration order."""
    from sismic import model
    sc = model.Statechart(spec.get('name', 'sc'), description=spec.get('description'),
                          preamble=spec.get('preamble'))
    for s in spec['states']:
        sc.add_state(_state_obj(model, s), s.get('parent'))
    for tr in spec['transitions']:
        t = model.Transition(tr['source'], tr.get('target'), event=tr.get('event'),
                             guard=tr.get('guard'), action=tr.get('action'),
                             priority=prio_value(tr.get('priority')))
        t.preconditions.extend(tr.get('pre') or [])
        t.postconditions.extend(tr.get('post') or [])
        t.invariants.extend(tr.get('inv') or [])
        sc.add_transition(t)
    return sc


def _contract_list(o):
    out = []
    for c in o.get('pre') or []:
        out.append({'before': c})
    for c in o.get('post') or []:
        out.append({'after': c})
    for c in o.get('inv') or []:
        out.append({'always': c})
    return out


def to_yaml_dict(spec):
    """The documented YAML structure as a plain dict (harness-side, independent of sismic)."""
    t = Tree(spec)
    by_source = {}
    for tr in spec['transitions']:
        by_source.setdefault(tr['source'], []).append(tr)

    def state(n):
        s = t.states[n]
        d = {'name': n}
        k = s['kind']
        if k == 'final':
            d['type'] = 'final'
        elif k == 'shallow':
            d['type'] = 'shallow history'
        elif k == 'deep':
            d['type'] = 'deep history'
        if k in HISTORY and s.get('memory') is not None:
            d['memory'] = s['memory']
        if k == 'compound' and s.get('initial') is not None:
            d['initial'] = s['initial']
        if s.get('on_entry') is not None:
            d['on entry'] = s['on_entry']
        if s.get('on_exit') is not None:
            d['on exit'] = s['on_exit']
        c = _contract_list(s)
        if c:
            d['contract'] = c
        trs = []
        for tr in by_source.get(n, []):
            x = {}
            for key in ('target', 'event', 'guard', 'action'):
                if tr.get(key) is not None:
                    x[key] = tr[key]
            p = tr.get('priority', 0)
            if p not in (0, None):
                x['priority'] = p
            c = _contract_list(tr)
            if c:
                x['contract'] = c
            trs.append(x)
        if trs:
            d['transitions'] = trs
        if k == 'compound':
            d['states'] = [state(c) for c in t.children[n]]
        elif k == 'orthogonal':
            d['parallel states'] = [state(c) for c in t.children[n]]
        return d

    sc = {'name': spec.get('name', 'sc')}
    if spec.get('description') is not None:
        sc['description'] = spec['description']
    if spec.get('preamble') is not None:
        sc['preamble'] = spec['preamble']
    sc['root state'] = state(t.root)
    return {'statechart': sc}


def to_yaml_text(spec):
    """Block-style YAML text of the spec, dumped by the harness with ruamel (not by sismic)."""
    import io
    import ruamel.yaml
    y = ruamel.yaml.YAML(typ='safe', pure=True)
    y.default_flow_style = False
    y.width = 4096
    out = io.StringIO()
    y.dump(to_yaml_dict(spec), out)
    return out.getvalue()


def from_statechart(sc):
    """Observe a sismic Statechart through its public API as a spec-like dict (for comparisons)."""
    from sismic import model
    kinds = [(model.ShallowHistoryState, 'shallow'), (model.DeepHistoryState, 'deep'),
             (model.FinalState, 'final'), (model.OrthogonalState, 'orthogonal'),
             (model.CompoundState, 'compound'), (model.BasicState, 'basic')]
    states = []

    def walk(n):
        o = sc.state_for(n)
        k = None
        for klass, name in kinds:
            if type(o) is klass:
                k = name
        states.append({'name': n, 'kind': k, 'parent': sc.parent_for(n),
                       'initial': getattr(o, 'initial', None), 'memory': getattr(o, 'memory', None),
                       'on_entry': getattr(o, 'on_entry', None), 'on_exit': getattr(o, 'on_exit', None),
                       'pre': list(o.preconditions), 'post': list(o.postconditions),
                       'inv': list(o.invariants)})
        for c in sc.children_for(n):
            walk(c)
    if sc.root is not None:
        walk(sc.root)
    trs = []
    for i, t in enumerate(sc.transitions):
        trs.append({'id': i, 'source': t.source, 'target': t.target, 'event': t.event,
                    'guard': t.guard, 'action': t.action, 'priority': t.priority,
                    'pre': list(t.preconditions), 'post': list(t.postconditions),
                    'inv': list(t.invariants)})
    return {'name': sc.name, 'description': sc.description, 'preamble': sc.preamble,
            'states': states, 'transitions': trs}
