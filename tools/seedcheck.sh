#!/bin/sh
# tools/seedcheck.sh <dir-with-_seed> <PROP> [more props]  : confirm a seeded change and run checks against it
D="$1"; shift
cd "$D" || exit 2
echo "== suite with change"; PYTHONPATH="$D" /venv/bin/python -m pytest tests -q -p no:cacheprovider 2>&1 | tail -1
echo "== demo with change (want 1)"; PYTHONPATH="$D" /venv/bin/python _seed/demo.py >/dev/null 2>&1; echo "exit=$?"
git apply -R _seed/patch.diff || { echo "cannot revert"; exit 2; }
echo "== demo without change (want 0)"; PYTHONPATH="$D" /venv/bin/python _seed/demo.py >/dev/null 2>&1; echo "exit=$?"
git apply _seed/patch.diff
cd /verif
for P in "$@"; do
  echo "== check $P against the change (SISMIC_SRC=$D)"
  SISMIC_SRC="$D" ./check "$P" 2>&1 | grep -v "^WARNING\|^PLEASE\|^$" | tail -3 | cut -c1-400
done
git -C /verif checkout -- evidence 2>/dev/null
