#!/bin/sh
# tools/sweep.sh "<seeds>" [tier] : run every registered quick (or given tier) check at several VERIF_SEED
# values on the unchanged tree; any exit code other than 0 is printed in full
cd "$(dirname "$0")/.." || exit 2
TIER="${2:-quick}"
for sd in $1; do
  for p in C01 C02 C03 C04 C05 C06 C07 C08 C09 C10 C11 C12 C13 C14 C15 C16 C17 C18 C19 C20; do
    VERIF_SEED=$sd ./check $p --tier $TIER > /tmp/sweep.$$.out 2>&1; rc=$?
    echo "seed=$sd $p rc=$rc $(grep -E "^C[0-9]+ (held|VIOLATED)" /tmp/sweep.$$.out | cut -c1-110)"
    if [ $rc -ne 0 ]; then grep -v "^WARNING\|^PLEASE\|^$" /tmp/sweep.$$.out | tail -6 | cut -c1-600; fi
  done
done
rm -f /tmp/sweep.$$.out
