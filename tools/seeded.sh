#!/bin/sh
# tools/seeded.sh [id-substring] : apply each seeded change to /repo, run the quick check(s) of the
# property it breaks, undo it straight afterwards.  Prints one line per (change, check).
cd /verif || exit 2
for d in seeded/*${1}*/; do
  id=$(basename "$d")
  props=$(python3 -c "import json,sys; m=json.load(open('$d/meta.json')); print(' '.join(sorted(m['detected_by'])))")
  if ! git -C /repo apply --check "/verif/$d/patch.diff" 2>/dev/null; then echo "$id: PATCH DOES NOT APPLY"; continue; fi
  git -C /repo apply "/verif/$d/patch.diff"
  for p in $props; do
    ./check "$p" >/tmp/seeded.$$.out 2>&1; rc=$?
    echo "$id $p exit=$rc $(grep -m1 'kind=' /tmp/seeded.$$.out | cut -c1-120)"
  done
  git -C /repo checkout -- .
  rm -f /tmp/seeded.$$.out
done
git -C /verif checkout -- evidence 2>/dev/null
git -C /verif clean -fdqx replays 2>/dev/null
