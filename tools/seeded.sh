#!/bin/sh
# tools/seeded.sh [--in-repo] [id-substring]
# Run the quick check(s) of the property each seeded change breaks against that change.
# Default: the patch is applied to a scratch copy of /repo (outside /repo and /verif) and the
# checks run with SISMIC_SRC=<copy>, so nothing else using /repo is disturbed.
# --in-repo: apply the patch to /repo itself (git apply), run, and undo it straight afterwards.
# SAVE_REGRESS=1 keeps each shrunk failing case under replays/regress/.
cd /verif || exit 2
MODE=copy
if [ "$1" = "--in-repo" ]; then MODE=repo; shift; fi
for d in seeded/*${1}*/; do
  id=$(basename "$d")
  props=$(python3 -c "import json,sys; m=json.load(open('$d/meta.json')); print(' '.join(sorted(m['detected_by'])))")
  if [ "$MODE" = repo ]; then
    if ! git -C /repo apply --check "/verif/$d/patch.diff" 2>/dev/null; then echo "$id: PATCH DOES NOT APPLY"; continue; fi
    git -C /repo apply "/verif/$d/patch.diff"; SRC=/repo
  else
    SRC=$(mktemp -d /tmp/seeded-XXXXXX)
    rsync -a --exclude .git --exclude __pycache__ /repo/ "$SRC/"
    if ! (cd "$SRC" && patch -s -p1 < "/verif/$d/patch.diff"); then echo "$id: PATCH DOES NOT APPLY"; rm -rf "$SRC"; continue; fi
  fi
  for p in $props; do
    SISMIC_SRC="$SRC" ./check "$p" >/tmp/seeded.$$.out 2>&1; rc=$?
    echo "$id $p exit=$rc $(grep -m1 'kind=' /tmp/seeded.$$.out | cut -c1-120)"
    rp=$(grep -m1 '^VIOLATION' /tmp/seeded.$$.out | sed 's/.*replay=//')
    if [ -n "$rp" ] && [ -f "$rp" ] && [ -n "$SAVE_REGRESS" ]; then mkdir -p replays/regress; cp "$rp" "replays/regress/$p-$id.json"; fi
  done
  if [ "$MODE" = repo ]; then git -C /repo checkout -- .; else rm -rf "$SRC"; fi
  rm -f /tmp/seeded.$$.out
done
git -C /verif checkout -- evidence 2>/dev/null
find replays -maxdepth 1 -name '*.json' -delete 2>/dev/null
