#!/bin/sh
# run the repository's pinned suite (BASELINE.json command); expected: 340 passed, 7 failed
cd "${1:-/repo}" && /venv/bin/python -m pytest -ra -q -p no:cacheprovider --timeout=900 --continue-on-collection-errors 2>&1 | tail -12
