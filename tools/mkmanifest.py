#!/usr/bin/env python3
"""Regenerate /verif/MANIFEST.json from the table below (keeps it valid at all times)."""
import json
import os

HERE = os.path.dirname(os.path.dirname(os.path.abspath(__file__)))
BASE = ('Generated cases are executed by the real code and every observation is compared with an '
        'explicit oracle; violations are found on explored cases only, absence is never shown. ')
CHECKS = {
    'C01': ('exploration', 'reference selection rule over generated charts, configurations, pending events and guard valuations', 'property-based testing (Hypothesis) against a reference model'),
    'C02': ('exploration', 'legality predicate on the configuration after every execute_once of generated histories', 'property-based testing (Hypothesis), invariant over histories'),
    'C03': ('exploration', 'executed-code log vs returned MacroStep, scope/entry-path/order rules per micro step', 'property-based testing (Hypothesis) against a reference model'),
    'C04': ('exploration', 'pairwise region classification of the fired set decides which error is admissible; rejection must be atomic', 'property-based testing (Hypothesis) against a reference model'),
    'C05': ('exploration', 'queue model (due time, arrival order, internal first) predicts every consumed event; exactly-once epilogue', 'model-based property testing (Hypothesis)'),
    'C06': ('exploration', 'model snapshots of history parents predict every restoration', 'model-based property testing (Hypothesis)'),
    'C07': ('exploration', 'metamorphic: same chart under two declaration orders via API and YAML, repeated in-process and under 5 PYTHONHASHSEED values', 'metamorphic / differential property testing (Hypothesis)'),
    'C08': ('fault_enumeration', 'documented evaluation order reconstructed from the MacroStep; every (quick: sampled) condition occurrence made to fail once', 'property-based testing (Hypothesis) + single-fault enumeration'),
    'C09': ('exploration', 'differential: contracts on vs ignore_contract=True on generated charts and on the shipped elevator/microwave contract charts', 'differential property testing (Hypothesis)'),
    'C10': ('fault_enumeration', 'meta-event sequence reconstructed from the MacroStep vs what a listener and a recording property statechart saw; a property chart turning final at the k-th meta-event for every (quick: sampled) k', 'property-based testing (Hypothesis) + fault enumeration over the k-th meta-event'),
    'C13': ('exploration', 'model of entered_at/fired_at per state predicts every after()/idle() probe; frozen step time under mid-step clock moves', 'model-based property testing (Hypothesis)'),
    'C18': ('fault_enumeration', 'reference run vs runs continued from a pickle / deepcopy snapshot taken at every (quick: sampled) macro-step boundary', 'differential property testing (Hypothesis) over snapshot points'),
    'C11': ('exploration', 'round-trip: structure comparison, == clause, idempotence and behavioural equality of original / re-import / re-re-import over generated text-heavy charts', 'round-trip property testing (Hypothesis)'),
    'C12': ('fault_enumeration', 'independent validator of the listed rules decides accept/reject for every single-fault (thorough: pair) variant of generated valid documents; accepted charts are re-checked for structural soundness', 'property-based testing (Hypothesis) + fault-operator enumeration against an independent validator'),
    'C14': ('exploration', 'exact (Fraction) clock model over operation sequences with a scripted real-time source; SynchronizedClock compared with the last step time', 'model-based property testing (Hypothesis) over operation sequences'),
    'C16': ('exploration', 'dict-based edit model applies the documented effect of each call; public observation compared after every operation, failed edits must change nothing', 'model-based stateful property testing (Hypothesis) over edit sequences'),
    'C17': ('exploration', 'metamorphic: run of the renamed chart == original run with names substituted; host run == guest run mapped by the renaming function', 'metamorphic property testing (Hypothesis)'),
    'C15': ('exploration', 'model of the binding table plus one queue model per interpreter predicts deliveries to callables and every later consumed event; final drain', 'model-based property testing (Hypothesis) over bind/detach/queue/step sequences'),
    'C19': ('exploration', 'differential: per-step statuses reported by execute_bdd / the sismic-bdd entry point vs a direct evaluation of the same generated scenarios on a plain Interpreter following docs/behavior.rst; sismic.testing predicates vs direct evaluation', 'differential property testing (Hypothesis) of generated Gherkin scenarios'),
    'C20': ('exploration', 'harness-owned thread schedules (baton scheduler, virtual time, deadlock detection) over AsyncRunner + client scripts at three granularities; executed vs reported steps, lifecycle hooks, pause/stop behaviour and a partial-order queue model over the observed call intervals', 'schedule-exploring property testing (Hypothesis-generated scripts and schedules under a deterministic scheduler)'),
}
NOT_YET = 'check not built yet in this round (planned, see DESIGN.md section 4)'


def main():
    props = [json.loads(l) for l in open(os.path.join(HERE, 'properties.jsonl'))]
    checks, na = [], []
    for p in props:
        pid = p['id']
        if pid in CHECKS:
            level, how, tech = CHECKS[pid]
            checks.append({
                'property_id': pid,
                'quick_cmd': './check %s --tier quick' % pid,
                'thorough_cmd': './check %s --tier thorough' % pid,
                'evidence_file': 'evidence/%s.json' % pid,
                'replay_cmd_template': './check %s --replay {path}' % pid,
                'engine': 'vf',
                'level_claimed': {'category': level, 'text': BASE + 'Oracle: ' + how + '.',
                                  'design_ref': 'DESIGN.md section 4 (%s)' % pid},
                'level_note': 'trusted: the oracle code under vf/ (reference model, probes), Hypothesis as generator, CPython; sismic is imported from /repo\'s working tree',
                'technique': tech})
        else:
            na.append({'property_id': pid, 'reason': NOT_YET})
    m = {'version': 1, 'setup_cmd': './check --setup',
         'hooks': {'guard': 'SISMIC_VERIF',
                   'enable': 'no source hooks exist: checks import sismic from /repo\'s working tree (PYTHONPATH) and observe through public API, execution-context data and harness-side module attribute patching',
                   'baseline_off_cmd': 'cd /repo && /venv/bin/python -m pytest -ra -q -p no:cacheprovider --timeout=900 --continue-on-collection-errors',
                   'source_commits': [], 'add_only': True},
         'engines': [{'name': 'vf', 'path': 'vf/', 'serves_properties': sorted(CHECKS),
                      'kind_free_text': 'Hypothesis-driven property-based testing harness with reference models, sharded over 16 processes; ./selftest runs it against mutants'}],
         'checks': checks, 'not_applicable': na,
         'notes': 'See DESIGN.md. fix: commits in /repo are listed in known_findings.json (status fixed). Seeded changes under seeded/.'}
    with open(os.path.join(HERE, 'MANIFEST.json'), 'w') as f:
        json.dump(m, f, indent=1)
        f.write('\n')
    print('%d checks, %d not applicable' % (len(checks), len(na)))


if __name__ == '__main__':
    main()
